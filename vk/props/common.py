"""Shared helpers for per-property plans."""
import random

WIDTHS = [8, 16, 32, 64, 128]
SIGNS = ["I", "U"]
FAMILIES = [(s, w) for s in SIGNS for w in WIDTHS]


def ty(s, w, f):
    return "Fixed%s%d<U%d>" % (s, w, f)


def inner(s, w):
    return ("i" if s == "I" else "u") + str(w)


def uinner(w):
    return "u" + str(w)


def alias(s, w, f):
    return "%s%dF%d" % (s, w - f, f)


def tag(s, w, f):
    return "%s%d_%d" % (s.lower(), w, f)


def boundary_fracs(w):
    return sorted({0, 1, w // 2, w - 1, w})


def boundary_fracs7(w):
    return sorted({0, 1, 2, w // 2, w - 2, w - 1, w})


def all_fracs(w):
    return list(range(0, w + 1))


def seeded_fracs(w, seed, k, exclude=()):
    r = random.Random(seed * 1000003 + w)
    pool = [f for f in range(w + 1) if f not in exclude]
    r.shuffle(pool)
    return sorted(pool[:k])


def interleave(jobs, block=12, base=3):
    """Priorities that interleave the kinds of obligations (second component of the harness name): when the run budget
    ends early, a part of every kind has been decided instead of all of the first kinds and none of the last."""
    seen = {}
    for j in jobs:
        if j.prio != 5:
            continue
        kind = j.name.split("_")[1] if "_" in j.name else j.name
        i = seen.get(kind, 0)
        seen[kind] = i + 1
        j.prio = base + min(1.99, (i // block) * 0.02)   # stays below the default priority 5
