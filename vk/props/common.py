"""Shared helpers for per-property plans."""
import random

WIDTHS = [8, 16, 32, 64, 128]
SIGNS = ["I", "U"]
FAMILIES = [(s, w) for s in SIGNS for w in WIDTHS]


def ty(s, w, f):
    return "Fixed%s%d<U%d>" % (s, w, f)


def inner(s, w):
    return ("i" if s == "I" else "u") + str(w)


def uinner(w):
    return "u" + str(w)


def alias(s, w, f):
    return "%s%dF%d" % (s, w - f, f)


def tag(s, w, f):
    return "%s%d_%d" % (s.lower(), w, f)


def boundary_fracs(w):
    return sorted({0, 1, w // 2, w - 1, w})


def boundary_fracs7(w):
    return sorted({0, 1, 2, w // 2, w - 2, w - 1, w})


def all_fracs(w):
    return list(range(0, w + 1))


def seeded_fracs(w, seed, k, exclude=()):
    r = random.Random(seed * 1000003 + w)
    pool = [f for f in range(w + 1) if f not in exclude]
    r.shuffle(pool)
    return sorted(pool[:k])
