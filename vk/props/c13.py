"""C13 – sqrt accuracy."""
import random
from . import acc
from . import trans as T


def plan(tier, seed, kf_ids):
    rnd = random.Random(seed + 1313)
    q = tier == "quick"
    jobs = []
    a = "I9F23"
    F = 23
    one = 1 << F
    if q:
        # 100-300 s per neighbourhood: zero, one, the Err/Ok threshold, the maximum (where l + x/l is largest), one power of two of
        # each exponent parity, one seeded operand
        centres = [0, one - 128, (1 << 31) - 256, (1 << (F - 8)) - 128, 1 << 14, 1 << 27, rnd.randrange(1, 1 << 31)]
    else:
        centres = [0, one - 128, one, 2 * one - 128, 4 * one - 128, (1 << 31) - 256, (1 << (F - 8)) - 128, 3 * one, (one >> 1) - 128]
        centres += [1 << p for p in range(1, 31, 2)]
        centres += [rnd.randrange(1, 1 << 31) for _ in range(12)]
    for c in sorted(set(centres)):
        # Err allowed only when 1/x is not representable: x < 2^-8 (+ margin of one neighbourhood)
        must_ok = c >= (1 << (F - 8))
        jobs.append(acc.sqrt_job("c13", a, a, c, 8, must_ok, 30))
    # unsigned 32-bit type
    for c in ([(1 << 32) - 256] if q else [0, one - 128, (1 << 32) - 256, 1 << 20, 1 << 30]):
        jobs.append(acc.sqrt_job("c13", "U9F23", "U9F23", c, 8, c > (1 << (F - 8)) + 512, 30))
    # 64-bit type: single operands and 2^2-neighbourhoods (the 32 dependent 128-bit divisions only fold for (nearly) concrete operands)
    # single operands (k = 0) are constants that the solver's front end folds in seconds: witnesses on the wide types, not
    # universally quantified obligations
    for al, x in (("I32F32", 7.5e7), ("I32F32", 5 * 2.0 ** -32), ("I32F32", 0.3), ("I16F48", 1000.5), ("I16F48", 2.0 ** 15 - 0.25)):
        jobs.append(acc.sqrt_job("c13", al, al, int(x * (1 << T.TYPES[al][2])), 0, True, 60, timeout=600))
        jobs[-1].prio = 1
    for (sa, da, x) in (("I9F23", "I32F32", 0.6), ("I9F23", "I32F32", 2.0 ** -10), ("I9F23", "I32F32", 200.7), ("I32F32", "I64F64", 0.75), ("U9F23", "U32F32", 0.3)):
        fsrc = T.TYPES[sa][2]
        jobs.append(acc.acc1("c13", "sqrt", sa, da, int(x * (1 << fsrc)), 0, 4, 0, True, 80, timeout=600, tag="to_%s_c%d" % (da.lower(), int(x * (1 << fsrc)))))
        jobs[-1].prio = 1
    for x, k in ((1e9, 0), (2.0 ** 31 - 1, 0)) if q else ((1e9, 0), (1e9, 2), (7.5e7, 2), (2.0 ** 30, 0), (2.0 ** 31 - 1, 0), (3.0, 2), (2.0 ** -20, 0), (1e-9, 0), (12345.678, 2)):
        jobs.append(acc.sqrt_job("c13", "I32F32", "I32F32", int(x * (1 << 32)), k, True, 40, timeout=1800))
        jobs[-1].prio = 1
    for kf in kf_ids:
        if kf == "c13_sqrt_wide_int":
            jobs.append(acc.sqrt_job("c13", "I96F32", "I96F32", 1 << (94 + 32), 0, True, 40, timeout=1800, kf=kf, tag="kfw_2p94"))
            jobs[-1].name = jobs[-1].name  # witness harness (concrete operand)
    return {
        "feature": "c13",
        "jobs": jobs,
        "functions": ["transcendental.rs: sqrt (Newton iteration, inversion for operands < 1)", "checked_div, /, + of the fixed type"],
        "bounds": "I9F23 and U9F23: neighbourhoods of 2^8 consecutive operands at 0, 1, powers of two (both parities of the exponent), "
                  "the Err/Ok threshold 2^-8, the type's maximum, and seeded operands; every operand of a neighbourhood is decided",
        "outside": ["operands outside the neighbourhoods (a full-range query did not finish in 40 min)",
                    "64/128-bit types (32+ dependent wide divisions exhaust memory); the known defect for types with many integer "
                    "bits is demonstrated on one concrete operand"],
        "assumptions": ["algebraic oracle (r-4)^2 <= x*2^F <= (r+4)^2 in exact 128-bit integer arithmetic"],
        "stubs": [],
    }
