"""C02 – checked/saturating/wrapping/overflowing agree on one exact result."""
import random
from . import common as c
from . import arith as A


def plan(tier, seed, kf_ids):
    rnd = random.Random(seed + 202)
    q = tier == "quick"
    jobs = []
    for s, w in c.FAMILIES:
        fr = sorted(set([0, w // 2, w] + ([] if q else [1, w - 1] + c.seeded_fracs(w, seed, 3))))
        extra = rnd.randrange(0, w + 1)
        if q and extra not in fr:
            # one seeded fractional count, linear operations only
            jobs.append(A.lin('c02', s, w, extra))
        for f in fr:
            jobs.append(A.lin("c02", s, w, f))
            if s == "I":
                jobs.append(A.abs_("c02", s, w, f))
            jobs.append(A.divzero("c02", s, w, f))
            mid = f == w // 2
            if w <= 32 or (w == 64 and not q):
                for form in range(5):
                    if w == 64 and form == 0 and not mid:
                        continue
                    jobs.append(A.mul("c02", s, w, f, form, timeout=2400 if w == 64 else 900))
            elif w == 64 and mid:
                jobs.append(A.mul("c02", s, w, f, 3, timeout=1200))   # saturating: ~60 s
            if w <= 32 or (w == 64 and (mid or not q)):
                for form in range(5):
                    if q and w == 32 and not mid and form in (1, 4):
                        continue
                    jobs.append(A.mulint("c02", s, w, f, form))
                for form in (0, 1, 2, 4):
                    if w == 64 and q:
                        continue
                    if w == 32 and q and (not mid or form != 2):
                        continue
                    jobs.append(A.divint("c02", s, w, f, form, timeout=2400))
            if w == 8:
                jobs.append(A.div8("c02", s, w, f))
            elif w == 16 and (mid or not q):
                for form in range(5):
                    jobs.append(A.div("c02", s, w, f, form))
            elif w == 32 and not q and f in (0, w // 2, w):
                for form in range(5):
                    jobs.append(A.div("c02", s, w, f, form, timeout=3000))
    # 64- and 128-bit division: every dividend against constant power-of-two divisors (incl. -1 ulp, where min / -1 ulp
    # and the dividend that scales to the minimum overflow); the general 64/128-bit divider is out of reach of SAT
    for s, w in c.FAMILIES:
        if w < 64:
            continue
        fr = [0, 1, w // 2, w - 1, w] if not q else [0, w // 2, w - 1, w]
        for f in fr:
            ks = [(0, False), (w // 2 - 1, False)] + ([(0, True), (w - 2, True)] if s == "I" else [(w - 1, False)])
            if q:
                ks = ks[:1] + ks[2:3] if f not in (w // 2,) else ks
            for (k, neg) in ks:
                jobs.append(A.div_pow2("c02", s, w, f, k, neg, timeout=1200))
    # 64/128-bit multiplication: every a against constant power-of-two factors (the full 128-bit product is Engine M's / the families')
    for s, w in c.FAMILIES:
        if w < 64:
            continue
        for f in ([1, w // 2, w - 1, w] if q else [0, 1, 2, w // 2, w - 2, w - 1, w]):
            # (a negative factor other than the minimum has a dense bit pattern: -1 ulp did not finish in 9 min)
            for (k, neg) in [(0, False), (w // 2, False)] + ([(w - 2, False), (w - 1, True)] if s == "I" else [(w - 1, False)]):
                jobs.append(A.mul_pow2("c02", s, w, f, k, neg, timeout=900))
    c.interleave(jobs)
    return {
        "feature": "c02",
        "jobs": jobs,
        "functions": ["macros_no_frac.rs: {checked,saturating,wrapping,overflowing}_{neg,add,sub,abs,mul_int}, "
                      "{checked,wrapping,overflowing}_div_int", "macros_frac.rs: {checked,saturating,wrapping,overflowing}_{mul,div}",
                      "arith.rs: MulDivOverflow::{mul_overflow,div_overflow} (widening instantiations), operators + - * / "
                      "(fixed and integer right-hand sides)"],
        "bounds": "all operand pairs of each instantiated alias, one policy form per query for mul/div/mul_int/div_int; "
                  "mul, mul_int for widths 8..32 (64 in thorough / one form in quick); div for width 8 (all forms incl. "
                  "wrapped value on overflow), 16, and (thorough) 32; div_int widths 8..32 (64 thorough); "
                  "128-bit: neg/add/sub/abs and zero divisors only",
        "outside": ["128-bit mul/div/mul_int/div_int policy forms (the 128-bit kernels are C01's operand families)",
                    "64-bit division (SAT does not finish on the 128-bit divider)",
                    "wrapped value of an overflowing division for widths >= 16", "aliases not instantiated"],
        "assumptions": ["zero divisors excluded in the non-checked division forms (documented panic)",
                        "plain operators only called when the result is representable (documented debug panic)"],
        "stubs": [],
    }
