"""C05 – float conversions are correctly rounded in both directions."""
import random
from core import Job
from . import common as c

FORMS = {0: "overflowing", 1: "wrapping", 2: "checked", 3: "saturating", 4: "plain"}


def plan(tier, seed, kf_ids):
    rnd = random.Random(seed + 505)
    q = tier == "quick"
    jobs = []
    for (s, w) in c.FAMILIES:
        if q:
            fr = sorted(set([rnd.choice([0, w]), w // 2] if w <= 32 else [rnd.choice([0, w // 2, w])]))
        else:
            fr = sorted(set([0, 1, w // 2, w - 1, w, rnd.randrange(0, w + 1)]))
        for f in fr:
            for ft in ("f32", "f64"):
                t = c.ty(s, w, f)
                al = c.alias(s, w, f)
                forms = (0, 2, 3) if q else (0, 1, 2, 3, 4)
                for form in forms:
                    name = "c05_from_%s_%s_%s" % (c.tag(s, w, f), ft, FORMS[form][:3])
                    code = "#[kani::proof]\npub fn %s() { from_float::<%s, %s, %d>(); }" % (name, t, ft, form)
                    jobs.append(Job(name, code, "for every finite %s bit pattern: the %s form of from_num into %s equals "
                                    "round-to-nearest-even of float*2^%d with overflow decided on the rounded value" % (ft, FORMS[form], al, f),
                                    timeout=1200, inst="%s->%s" % (ft, al), bounds="all finite %s bit patterns" % ft))
                name = "c05_to_%s_%s" % (c.tag(s, w, f), ft)
                code = "#[kani::proof]\npub fn %s() { to_float::<%s, %s>(); }" % (name, t, ft)
                jobs.append(Job(name, code, "for every value of %s: to_num::<%s> (and checked_/overflowing_) is the IEEE-754 "
                                "RNE result incl. subnormals and overflow to infinity" % (al, ft),
                                timeout=1200, inst="%s->%s" % (al, ft), bounds="all 2^%d values" % w))
        if w == 128:
            # subnormal f32 results exist only for 127/128 fractional bits: always instantiated
            for f in (127, 128):
                if f in fr:
                    continue
                name = "c05_to_%s_f32" % c.tag(s, w, f)
                code = "#[kani::proof]\npub fn %s() { to_float::<%s, f32>(); }" % (name, c.ty(s, w, f))
                jobs.append(Job(name, code, "for every value of %s: to_num::<f32> (and checked_/overflowing_) is the IEEE-754 "
                                "RNE result incl. SUBNORMAL results (|x| < 2^-126) and overflow to infinity" % c.alias(s, w, f),
                                timeout=1200, inst="%s->f32" % c.alias(s, w, f), bounds="all 2^128 values"))
        if w == 128:
            # the lowest normal binade and the subnormals of f32 are only visible to layouts with >= 125 fractional bits
            for f in ((125, 128) if s == "U" else (126, 127)):
                if f in fr:
                    continue
                for form in ((0, 3) if q else (0, 1, 2, 3, 4)):
                    name = "c05_from_%s_f32_%s" % (c.tag(s, w, f), FORMS[form][:3])
                    code = "#[kani::proof]\npub fn %s() { from_float::<%s, f32, %d>(); }" % (name, c.ty(s, w, f), form)
                    jobs.append(Job(name, code, "for every finite f32 bit pattern (incl. subnormals and the lowest normal binade, which only "
                                    "layouts with >= 125 fractional bits resolve): the %s form of from_num into %s equals RNE(float*2^%d)" % (FORMS[form], c.alias(s, w, f), f),
                                    timeout=1200, inst="f32->%s" % c.alias(s, w, f), bounds="all finite f32 bit patterns"))
        if fr:
            f0 = fr[-1]
            for ft in ("f32", "f64"):
                name = "c05_lossy_%s_%s" % (c.tag(s, w, f0), ft)
                code = "#[kani::proof]\npub fn %s() { lossy_float::<%s, %s>(); }" % (name, c.ty(s, w, f0), ft)
                jobs.append(Job(name, code, "for every value of %s: %s::lossy_from(x) has the bit pattern of x.to_num::<%s>()" % (c.alias(s, w, f0), ft, ft),
                                timeout=1200, inst="%s->%s" % (c.alias(s, w, f0), ft), bounds="all 2^%d values" % w))
        # non-finite inputs: one layout per family
        f = fr[0]
        for ft in ("f32", "f64"):
            if q and ft == "f64" and w not in (8, 128):
                continue
            t = c.ty(s, w, f)
            al = c.alias(s, w, f)
            for form, what in ((2, "checked: None for NaN/inf"), (3, "saturating: +-inf -> bounds")):
                name = "c05_nonfin_%s_%s_%s" % (c.tag(s, w, f), ft, FORMS[form][:3])
                code = "#[kani::proof]\npub fn %s() { nonfinite::<%s, %s, %d>(); }" % (name, t, ft, form)
                jobs.append(Job(name, code, "every non-finite %s into %s, %s" % (ft, al, what), timeout=600,
                                inst="%s->%s" % (ft, al), bounds="all NaN/inf bit patterns"))
            # any panic raised by the library counts as "rejected" (the wording of the message is not part of the property);
            # the only violation is reaching the harness's own assertion after the call
            lib_panic = r"^(?!MUSTPANIC).* @ (?!src/)"
            for form, pat in ((0, lib_panic), (1, lib_panic), (4, lib_panic), (5, lib_panic)):
                nm = {0: "ove", 1: "wra", 4: "pla", 5: "satnan"}[form]
                name = "c05_nonfin_%s_%s_%s" % (c.tag(s, w, f), ft, nm)
                code = "#[kani::proof]\npub fn %s() { nonfinite::<%s, %s, %d>(); }" % (name, t, ft, form)
                jobs.append(Job(name, code, "every non-finite %s (NaN only for saturating) into %s via the %s form panics: "
                                "the call never returns a number" % (ft, al, nm), timeout=600,
                                inst="%s->%s" % (ft, al), bounds="all NaN/inf bit patterns",
                                allow=[lib_panic],
                                expect_fail=[pat]))
    # as far as the run budget allows: the boundary layouts of every family (decided after everything above)
    if q:
        have = {j.name for j in jobs}
        for (s, w) in c.FAMILIES:
            for f in sorted(set([0, 1, w // 2, w - 1, w])):
                for ft in ("f32", "f64"):
                    t, al = c.ty(s, w, f), c.alias(s, w, f)
                    for form in (0, 3):
                        name = "c05_from_%s_%s_%s" % (c.tag(s, w, f), ft, FORMS[form][:3])
                        if name in have:
                            continue
                        jobs.append(Job(name, "#[kani::proof]\npub fn %s() { from_float::<%s, %s, %d>(); }" % (name, t, ft, form),
                                        "for every finite %s bit pattern: the %s form of from_num into %s equals RNE(float*2^%d) with overflow decided on "
                                        "the rounded value" % (ft, FORMS[form], al, f), timeout=600, inst="%s->%s" % (ft, al), bounds="all finite %s bit patterns" % ft))
                        jobs[-1].prio = 8
                    name = "c05_to_%s_%s" % (c.tag(s, w, f), ft)
                    if name in have:
                        continue
                    jobs.append(Job(name, "#[kani::proof]\npub fn %s() { to_float::<%s, %s>(); }" % (name, t, ft),
                                    "for every value of %s: to_num::<%s> is the IEEE-754 RNE result incl. subnormals and overflow to infinity" % (al, ft),
                                    timeout=600, inst="%s->%s" % (al, ft), bounds="all 2^%d values" % w))
                    jobs[-1].prio = 8
    c.interleave(jobs)
    return {
        "feature": "c05",
        "jobs": jobs,
        "functions": ["float_helper.rs: FloatHelper::{to_float_kind, from_to_float_helper, parts, is_nan} for f32, f64",
                      "traits.rs: ToFixed for f32/f64 (all five forms), FromFixed for f32/f64",
                      "helpers.rs: private_{overflowing,saturating}_from_float_helper, private_to_float_helper"],
        "bounds": "every float bit pattern (finite ones for value obligations, every NaN/inf pattern for the rejection "
                  "obligations) and every fixed-point value, per instantiated alias; one policy form per query",
        "outside": ["aliases not instantiated", "f16 / bf16 (optional feature)"],
        "assumptions": ["oracle: integer guard/sticky RNE on (sign, mantissa, exponent) in hk/src/c05.rs",
                        "must-panic obligations: the harness is refuted only by the library's own panic (NaN / infinite) and "
                        "the 'returned a number' assertion after the call is unreachable"],
        "stubs": [],
    }
