"""C12 – Result-returning math functions are total."""
import math
import random
from core import Job
from . import trans as T


def tan_intervals(alias, limit=100):
    """bit intervals of x with |x| <= limit that stay clear of the poles of tan: the property only
    covers angles whose true tangent is <= 64 in magnitude, i.e. |x - pole| >= atan(1/64); we keep a
    slightly larger margin (never demanding more than the property)."""
    inner, w, f, sg = T.TYPES[alias]
    margin = math.atan(1 / 64.0) * 1.02 + 2.0 ** -18
    los, his = [], []
    k0 = int(math.floor((-limit - math.pi / 2) / math.pi)) - 1
    poles = [math.pi / 2 + k * math.pi for k in range(k0, -k0 + 2)]
    poles = [p for p in poles if -limit - 4 < p < limit + 4]
    edges = [-float(limit)] + sorted(poles) + [float(limit)]
    for i in range(len(edges) - 1):
        lo = edges[i] + (margin if i > 0 else 0)
        hi = edges[i + 1] - (margin if i < len(edges) - 2 else 0)
        lo = max(lo, -limit)
        hi = min(hi, limit)
        if hi <= lo:
            continue
        los.append(int(math.ceil(lo * (1 << f))))
        his.append(int(math.floor(hi * (1 << f))))
    return los, his


def tan_operand(alias, limit=100):
    inner = T.TYPES[alias][0]
    los, his = tan_intervals(alias, limit)
    n = len(los)
    return ("{ const LO: [%s; %d] = [%s]; const HI: [%s; %d] = [%s]; let k: usize = kani::any(); kani::assume(k < %d); "
            "let b: %s = kani::any(); kani::assume(b >= LO[k] && b <= HI[k]); b }"
            % (inner, n, ", ".join(map(str, los)), inner, n, ", ".join(map(str, his)), n, inner)), n


def plan(tier, seed, kf_ids, prefix="c12", budget=False):
    rnd = random.Random(seed + 1212)
    q = tier == "quick"
    jobs = []

    def B(alias):
        return T.budget_expr(alias) if budget else T.BIG

    def UW(alias, n):
        # with a budget every loop may run up to budget+1 times before tick() panics
        return (T.budget(alias) + 2) if budget else n

    # ---- 32-bit type: full operand range where the query finishes in minutes
    a = "I9F23"
    jobs.append(T.total1(prefix, "exp", a, a, T.FULL, "all", UW(a, 26), B(a), bounds="all 2^32 operands"))
    jobs.append(T.trig(prefix, "sin", a, T.FULL, "all", UW(a, 30), B(a), 200 if not budget else 0))
    # cos adds pi/2 before reducing: operands within 2 of the type's maximum overflow that addition (outside C12's |x|<=200)
    jobs.append(T.trig(prefix, "cos", a, T.FULL, "all", UW(a, 30), B(a), 200 if not budget else 254))
    fam = "+-(2^p +- t), max - t, min + t; t < 256, every binade p"
    if not budget:
        jobs.append(T.total1(prefix, "log2", a, a, T.family(a), "family", UW(a, 36), B(a), timeout=2400, bounds=fam))
    jobs.append(T.total1(prefix, "log2", a, a, T.FULL, "all", UW(a, 36), B(a), timeout=2400, bounds="all 2^32 operands"))
    jobs[-1].prio = 9    # 6-7 min: decided last, when the run budget allows
    jobs.append(T.total1(prefix, "sqrt", a, a, T.family(a), "family", UW(a, 36), B(a), timeout=2400, bounds=fam))
    jobs.append(T.total1(prefix, "ln", a, a, T.family(a), "family", UW(a, 36), B(a), timeout=2400, bounds=fam))
    jobs.append(T.total1(prefix, "exp", a, "I32F32", T.FULL, "all", UW("I32F32", 40), B("I32F32"), bounds="all 2^32 operands"))
    # tan: quick |x| <= 8, thorough |x| <= 100 (17 min)
    op, n = tan_operand(a, 8 if q else 100)
    jobs.append(T.trig(prefix, "tan", a, op, "clear_of_poles_%d" % (8 if q else 100), UW(a, 30), B(a), 0, timeout=3600))
    if not q:
        for fun in ("sqrt", "ln"):
            jobs.append(T.total1(prefix, fun, a, a, T.FULL, "all", UW(a, 36), B(a), timeout=5400, bounds="all 2^32 operands"))
        jobs.append(T.total1(prefix, "sqrt", "U9F23", "U9F23", T.family("U9F23"), "family", UW("U9F23", 36), B("U9F23"), timeout=3600))
    # ---- 64-bit types: CORDIC (add/shift) over the full range; exp on the operand family
    wide = ["I32F32"] if q else ["I32F32", "I16F48"]
    for al in wide:
        w = T.TYPES[al][1]
        jobs.append(T.trig(prefix, "sin", al, T.FULL, "all", UW(al, 30), B(al), 200 if not budget else 0, timeout=3600))
        if not q or not budget:
            jobs.append(T.total1(prefix, "exp", al, al, T.family(al), "family", UW(al, w + 4), B(al), timeout=3600, bounds=fam))
    if not q:
        for al in ("I64F64", "I40F88"):
            jobs.append(T.trig(prefix, "sin", al, T.FULL, "all", UW(al, 30), B(al), 200 if not budget else 0, timeout=5400))
    if not budget:
        # pow / powi
        name = "%s_pow_i9f23_family" % prefix
        jobs.append(Job(name, "tr_total_pow!(%s, 40, I9F23, I9F23, i32, %s, %s, %s);" % (name, T.family(a), T.family(a), T.BIG),
                        "pow::<I9F23,I9F23>(x, y) for x and y in the operand family: Ok or Err without panic; negative base "
                        "with an exponent other than 0, 1 yields Err", timeout=3600, inst="pow I9F23", bounds="family x family"))
        big = "{ let b: i32 = kani::any(); kani::assume(b >= (2 << 23) || b <= -(2 << 23)); b }"
        for nexpr, nname, xop, unw, xdesc in (
                ("{ let n: i32 = kani::any(); kani::assume(n >= -6 && n <= 6); n }", "small", T.FULL, 9, "all x"),
                ("{ let n: i32 = kani::any(); kani::assume(n <= i32::MIN + 2 || n >= i32::MAX - 2); n }", "extreme", big, 12,
                 "|x| >= 2 (the product overflows within 8 steps)")):
            name = "%s_powi_i9f23_%s" % (prefix, nname)
            jobs.append(Job(name, "tr_total_powi!(%s, %d, I9F23, I9F23, i32, %s, %s);" % (name, unw, xop, nexpr),
                            "powi::<I9F23,I9F23>(x, n), n %s, %s: Ok or Err without panic" % (nname, xdesc), timeout=1800,
                            inst="powi I9F23", bounds="n %s; %s" % (nname, xdesc)))
    for j in jobs:
        if "sqrt_i9f23_i9f23_family" in j.name or "_pow_i9f23_family" in j.name or "_tan_" in j.name:
            j.prio = 1   # the longest ones start first
    return {
        "feature": prefix,
        "jobs": jobs,
        "functions": ["transcendental.rs: sqrt, log2 (log2_inner, rs), ln, exp, pow, powi, sin, cos, tan (cordic_rotation)",
                      "everything they call: checked_mul/div, From/LossyFrom, comparisons with I9F23 constants"],
        "bounds": "I9F23: every operand for exp (also into I32F32), log2, sin, cos (|x|<=200), tan (|x|<=8 quick / 100 thorough, clear "
                  "of poles by atan(1/64)*1.02); sqrt/ln on the operand family (+-(2^p+-t), max-t, min+t, t<256) and full range in "
                  "the thorough tier; I32F32 (and I16F48, I64F64, I40F88 thorough): sin over |x|<=200, exp on the family; pow on "
                  "family x family; powi for |n|<=6 (all x) and n within 2 of i32::MIN/MAX on |x|>=2",
        "outside": ["sqrt/log2/ln/pow on 64/128-bit types: 32+ dependent 128-bit multiplications/divisions exhaust memory in the "
                    "bit-blasting back end (probe: out of memory at 12 GB)", "powi exponents with 6 < |n| < 2^31 - 3, and |x| < 2 "
                    "for extreme exponents (2^31 iterations)", "type pairs not instantiated (I96F32, unsigned wide types)"],
        "assumptions": ["Kani models the checking profile (debug assertions and overflow checks on): absence of a failing check "
                        "there implies absence of a panic in the non-checking profile for the same operands (C11 argument)"],
        "stubs": [],
    }
