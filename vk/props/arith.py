"""Shared job builders for the arithmetic harness bodies of hk/src/ar.rs."""
from core import Job
from . import common as c

FORMS = {0: "overflowing", 1: "wrapping", 2: "checked", 3: "saturating", 4: "operator"}


def job(prefix, body, s, w, f, desc, timeout=900, generic_extra="", bounds=None, suffix=""):
    name = "%s_%s_%s%s" % (prefix, body, c.tag(s, w, f), suffix)
    g = "%s%s" % (c.ty(s, w, f), generic_extra)
    code = "#[kani::proof]\npub fn %s() { %s::<%s>(); }" % (name, body, g)
    return Job(name, code, desc % {"t": c.alias(s, w, f)}, timeout=timeout, inst=c.alias(s, w, f),
               bounds=bounds or "all 2^%d operand pairs" % (2 * w))


def lin(prefix, s, w, f):
    return job(prefix, "lin", s, w, f, "for all a,b of %(t)s: checked/saturating/wrapping/overflowing neg, add, sub "
               "and + - agree with the exact integer result (None / bound on the result's side / mod 2^W + flag)")


def abs_(prefix, s, w, f):
    return job(prefix, "abs", s, w, f, "for all a of %(t)s: the four abs forms agree with |a|",
               bounds="all 2^%d operands" % w)


def mul(prefix, s, w, f, form, timeout=900):
    return job(prefix, "mul_one", s, w, f, "for all a,b of %%(t)s: the %s form of mul equals floor(a*b/2^f) computed in a "
               "2W-bit product (flag <=> not representable; value mod 2^W; None; saturation side)" % FORMS[form],
               timeout=timeout, generic_extra=", %d" % form, suffix="_%s" % FORMS[form][:3])


def div(prefix, s, w, f, form, timeout=1200):
    return job(prefix, "div_one", s, w, f, "for all a, b != 0 of %%(t)s: the %s form of div: overflow <=> trunc(a*2^f/b) "
               "not representable (shift/compare criterion, no division); when it fits the quotient satisfies "
               "|q||b| <= |a|2^f < (|q|+1)|b| with the sign of a/b" % FORMS[form],
               timeout=timeout, generic_extra=", %d" % form, suffix="_%s" % FORMS[form][:3])


def div8(prefix, s, w, f):
    assert w == 8
    return job(prefix, "div8", s, w, f, "for all a, b != 0 of %(t)s: all five division forms equal the exact quotient "
               "(independent 32-bit division): flag, wrapped value on overflow, None, saturation side", timeout=900)


def mulint(prefix, s, w, f, form, timeout=900):
    return job(prefix, "mulint_one", s, w, f, "for all a of %%(t)s and all integers n: the %s form of mul_int equals the "
               "exact a*n" % FORMS[form], timeout=timeout, generic_extra=", %d" % form, suffix="_%s" % FORMS[form][:3])


def divint(prefix, s, w, f, form, timeout=900):
    return job(prefix, "divint_one", s, w, f, "for all a of %%(t)s and all integers n != 0: the %s form of div_int: flag "
               "only for min/-1 (wraps to min), otherwise trunc(a/n) by multiply-back" % FORMS[form],
               timeout=timeout, generic_extra=", %d" % form, suffix="_%s" % FORMS[form][:3])


def divzero(prefix, s, w, f):
    return job(prefix, "divzero", s, w, f, "for all a of %(t)s: checked_div/_div_int/_rem/_rem_int/_div_euclid/_rem_euclid "
               "with a zero divisor return None", bounds="all 2^%d operands" % w)


def mul128(prefix, s, f, fa, fb, timeout=900):
    return job(prefix, "mul128", s, 128, f, "for a in family %d and b in family %d of %%(t)s (2^32 operand pairs; 8 symbolic "
               "bits per 64-bit limb): all mul forms equal floor(a*b/2^f) from a 256-bit limb product" % (fa, fb),
               timeout=timeout, generic_extra=", %d, %d" % (fa, fb), suffix="_f%d%d" % (fa, fb),
               bounds="operand families of 2^16 values each (see hk/src/ar.rs fam128)")


def div128(prefix, s, f, fa, fb, timeout=900):
    return job(prefix, "div128", s, 128, f, "for a in family %d and b != 0 in family %d of %%(t)s: overflowing_div flag and "
               "quotient by 256-bit multiply-back" % (fa, fb),
               timeout=timeout, generic_extra=", %d, %d" % (fa, fb), suffix="_f%d%d" % (fa, fb),
               bounds="operand families of 2^16 values each (see hk/src/ar.rs fam128)")


def div_pow2(prefix, s, w, f, k, neg, timeout=900):
    return job(prefix, "div_pow2", s, w, f, "for EVERY dividend a of %%(t)s and the constant divisor %s2^%d ulp: all five division forms equal "
               "trunc(a*2^f/b) (flag, value mod 2^W, None, saturation side)" % ("-" if neg else "+", k),
               timeout=timeout, generic_extra=", %d, %s" % (k, "true" if neg else "false"), suffix="_%sp%d" % ("m" if neg else "", k),
               bounds="all 2^%d dividends, divisor constant" % w)


def div_const(prefix, s, w, f, d, neg, form, timeout=900):
    dh, dl = d >> 64, d & ((1 << 64) - 1)
    return job(prefix, "div_const", s, w, f, "for EVERY dividend a of %%(t)s and the constant divisor %s%#x ulp: the %s form of div: flag by "
               "shift/compare, quotient by 256-bit multiply-back" % ("-" if neg else "+", d, FORMS[form]),
               timeout=timeout, generic_extra=", %d, %d, %s, %d" % (dh, dl, "true" if neg else "false", form),
               suffix="_%sd%x_%s" % ("m" if neg else "", d, FORMS[form][:3]),
               bounds="all 2^%d dividends, divisor constant" % w)


def mul_pow2(prefix, s, w, f, k, neg, timeout=900):
    return job(prefix, "mul_pow2", s, w, f, "for EVERY a of %%(t)s and the constant factor %s2^%d ulp (both operand orders): all five multiplication forms "
               "equal floor(a*b/2^f) (flag, value mod 2^W, None, saturation side)" % ("-" if neg else "+", k),
               timeout=timeout, generic_extra=", %d, %s" % (k, "true" if neg else "false"), suffix="_%sp%d" % ("m" if neg else "", k),
               bounds="all 2^%d values of a, factor constant" % w)
