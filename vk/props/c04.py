"""C04 – fixed<->fixed and fixed<->integer conversions."""
import random
from core import Job
from . import common as c

INTS = ["i8", "i16", "i32", "i64", "i128", "isize", "u8", "u16", "u32", "u64", "u128", "usize"]
IW = {"i8": 8, "i16": 16, "i32": 32, "i64": 64, "i128": 128, "isize": 64, "u8": 8, "u16": 16, "u32": 32, "u64": 64,
      "u128": 128, "usize": 64}


def mk(name, body, generics, desc, inst, timeout=600, bounds="all source values"):
    code = "#[kani::proof]\npub fn %s() { %s::<%s>(); }" % (name, body, generics)
    return Job(name, code, desc, timeout=timeout, inst=inst, bounds=bounds)


def plan(tier, seed, kf_ids):
    rnd = random.Random(seed + 404)
    q = tier == "quick"
    jobs = []
    fams = c.FAMILIES
    # fixed -> fixed, ordered family pairs
    for (s1, w1) in fams:
        for (s2, w2) in fams:
            pairs = [rnd.choice([(w1 // 2, w2 // 2), (0, 0), (w1, w2)]), rnd.choice([(0, w2), (w1, 0), (1, w2 - 1), (w1 - 1, 1)])]
            if not q:
                pairs += [(0, 0), (w1, w2), (0, w2), (w1, 0), (1, w2 - 1), (w1 - 1, 1)]
                pairs += [(rnd.randrange(0, w1 + 1), rnd.randrange(0, w2 + 1)) for _ in range(4)]
            for (f1, f2) in sorted(set(pairs)):
                if (s1, w1, f1) == (s2, w2, f2) and q:
                    continue
                name = "c04_ff_%s_%s" % (c.tag(s1, w1, f1), c.tag(s2, w2, f2))
                jobs.append(mk(name, "ff", "%s, %s" % (c.ty(s1, w1, f1), c.ty(s2, w2, f2)),
                               "for every value v of %s: to_num/from_num and checked_/saturating_/wrapping_/overflowing_ "
                               "forms into %s equal floor(v*2^%d) with exact overflow policy" % (c.alias(s1, w1, f1), c.alias(s2, w2, f2), f2),
                               "%s->%s" % (c.alias(s1, w1, f1), c.alias(s2, w2, f2))))
    # fixed <-> ints
    for (s, w) in fams:
        fr = [rnd.choice([0, 1, w // 2, w - 1, w])] if q else sorted(set([0, 1, w // 2, w - 1, w, rnd.randrange(0, w + 1)]))
        for f in fr:
            for it in (rnd.sample(INTS, 5) if q else INTS):
                name = "c04_fi_%s_%s" % (c.tag(s, w, f), it)
                jobs.append(mk(name, "fi", "%s, %s" % (c.ty(s, w, f), it),
                               "for every value v of %s: to_num::<%s> forms equal floor(v) with exact overflow policy" % (c.alias(s, w, f), it),
                               "%s->%s" % (c.alias(s, w, f), it)))
                name = "c04_if_%s_%s" % (it, c.tag(s, w, f))
                jobs.append(mk(name, "ifx", "%s, %s" % (it, c.ty(s, w, f)),
                               "for every %s i: from_num forms into %s equal i*2^%d with exact overflow policy" % (it, c.alias(s, w, f), f),
                               "%s->%s" % (it, c.alias(s, w, f))))
            name = "c04_bool_%s" % c.tag(s, w, f)
            jobs.append(mk(name, "bfx", c.ty(s, w, f), "bool -> %s: from_num forms are exact 0/1 with exact overflow" % c.alias(s, w, f),
                           "bool->%s" % c.alias(s, w, f), bounds="both values"))
    # From / LossyFrom on the edge of the type-level bounds
    widths = c.WIDTHS
    for ws in widths:
        for wd in widths:
            for (ss, sd) in (("U", "U"), ("I", "I"), ("U", "I")):
                m1 = 1 if (ss, sd) == ("U", "I") else 0
                for fs in sorted(set([0, ws // 2, ws])):
                    isrc = ws - fs
                    # From: wd > ws, fd >= fs, isrc <= wd - m1 - fd
                    if wd > ws:
                        fdmax = wd - m1 - isrc
                        for fd in sorted(set([fs, fdmax])):
                            if fd < fs or fd > fdmax or fd > wd:
                                continue
                            if q and rnd.random() < 0.7:
                                continue
                            name = "c04_from_%s_%s" % (c.tag(ss, ws, fs), c.tag(sd, wd, fd))
                            jobs.append(mk(name, "from_ff", "%s, %s" % (c.ty(ss, ws, fs), c.ty(sd, wd, fd)),
                                           "From<%s> for %s is value preserving for every source value" % (c.alias(ss, ws, fs), c.alias(sd, wd, fd)),
                                           "From %s->%s" % (c.alias(ss, ws, fs), c.alias(sd, wd, fd))))
                    # LossyFrom: isrc <= wd - m1 - fd  (any widths)
                    fdmax = wd - m1 - isrc
                    if fdmax >= 0:
                        for fd in sorted(set([0, fdmax])):
                            if fd > wd:
                                continue
                            if q and rnd.random() < 0.8:
                                continue
                            name = "c04_lossy_%s_%s" % (c.tag(ss, ws, fs), c.tag(sd, wd, fd))
                            jobs.append(mk(name, "lossy_ff", "%s, %s" % (c.ty(ss, ws, fs), c.ty(sd, wd, fd)),
                                           "LossyFrom<%s> for %s loses only fractional bits (floor) for every source value" % (c.alias(ss, ws, fs), c.alias(sd, wd, fd)),
                                           "LossyFrom %s->%s" % (c.alias(ss, ws, fs), c.alias(sd, wd, fd))))
    # From<int> at the edge: int width wi <= int bits of a wider destination
    for it in ("i8", "i16", "i32", "i64", "u8", "u16", "u32", "u64"):
        wi = IW[it]
        for wd in widths:
            if wd <= wi:
                continue
            for sd in ("I", "U"):
                if it[0] == "i" and sd == "U":
                    continue
                m1 = 1 if (it[0] == "u" and sd == "I") else 0
                fd = wd - m1 - wi
                if fd < 0:
                    continue
                for f in sorted(set([0, fd])):
                    if q and rnd.random() < 0.5:
                        continue
                    name = "c04_fromint_%s_%s" % (it, c.tag(sd, wd, f))
                    jobs.append(mk(name, "from_if", "%s, %s" % (it, c.ty(sd, wd, f)),
                                   "From<%s>/LossyFrom<%s> for %s are exact for every integer" % (it, it, c.alias(sd, wd, f)),
                                   "From %s->%s" % (it, c.alias(sd, wd, f))))
    # LossyFrom<fixed> for integers: zero integer bits, and integer bits == destination bits (edge of the bound)
    for ss in ("I", "U"):
        for ws in widths:
            for it in ("i8", "i16", "i32", "i64", "i128", "isize", "u8", "u16", "u32", "u64", "u128", "usize"):
                if ss == "I" and it[0] == "u":
                    continue
                bound = 16 if it in ("isize", "usize") else IW[it]
                m1 = 1 if (ss == "U" and it[0] == "i") else 0
                for isrc in sorted(set([0, min(ws, bound - m1)])):
                    fs = ws - isrc
                    if fs < 0 or isrc > bound - m1:
                        continue
                    if q and isrc != 0 and rnd.random() < 0.75:
                        continue
                    if q and isrc == 0 and it not in ("i8", "i64", "isize", "u16", "u128") and rnd.random() < 0.5:
                        continue
                    name = "c04_lossyint_%s_%s" % (c.tag(ss, ws, fs), it)
                    jobs.append(mk(name, "lossy_fi", "%s, %s" % (c.ty(ss, ws, fs), it),
                                   "LossyFrom<%s> for %s is the floor of the value for every source value" % (c.alias(ss, ws, fs), it),
                                   "LossyFrom %s->%s" % (c.alias(ss, ws, fs), it)))
            # From<fixed F0> for integers of the same or a wider width
            for it in ("i8", "i16", "i32", "i64", "i128", "u8", "u16", "u32", "u64", "u128"):
                wi = IW[it]
                ok = (wi >= ws and ((ss == "I") == (it[0] == "i"))) or (wi > ws and ss == "U" and it[0] == "i")
                if not ok or (q and rnd.random() < 0.7):
                    continue
                name = "c04_fromfixed_%s_%s" % (c.tag(ss, ws, 0), it)
                jobs.append(mk(name, "from_fi", "%s, %s" % (c.ty(ss, ws, 0), it),
                               "From<%s> for %s preserves every value" % (c.alias(ss, ws, 0), it), "From %s->%s" % (c.alias(ss, ws, 0), it)))
    c.interleave(jobs)
    return {
        "engine_m": ["tofixed"],
        "feature": "c04",
        "jobs": jobs,
        "functions": ["traits.rs: FromFixed/ToFixed for Fixed*, for the 12 integer types and bool ({,checked_,saturating_,"
                      "wrapping_,overflowing_}{from,to}_fixed)", "macros_from_to.rs: from_num/to_num families",
                      "int_helper.rs: IntHelper::to_fixed_helper", "convert.rs: From / LossyFrom (fixed->fixed, int->fixed, fixed->int)"],
        "bounds": "every source value for each instantiated ordered (source, destination) pair; pairs: every ordered family "
                  "pair at boundary/crossed/seeded layout pairs, every family against the 12 integer types, From/LossyFrom at "
                  "the edges of their type-level bounds",
        "outside": ["layout pairs not instantiated", "that no inadmissible pair has a From/LossyFrom impl (compile-time fact)",
                    "From/LossyFrom<fixed> for floats (C05)"],
        "assumptions": ["plain from_num/to_num only called when the value fits (documented debug panic)"],
        "stubs": [],
    }
