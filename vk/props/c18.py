"""C18 – Wrapping<F>."""
import random
from core import Job
from . import common as c


def mk(name, body, generics, desc, inst, timeout=900, bounds="all operands", unwind=None, allow=(), expect_fail=()):
    code = "#[kani::proof]\n%spub fn %s() { %s::<%s>(); }" % ("#[kani::unwind(%d)]\n" % unwind if unwind else "", name, body, generics)
    return Job(name, code, desc, timeout=timeout, inst=inst, bounds=bounds, allow=allow, expect_fail=expect_fail)


def plan(tier, seed, kf_ids):
    rnd = random.Random(seed + 1818)
    q = tier == "quick"
    jobs = []
    for s, w in c.FAMILIES:
        fr = [w // 2, rnd.choice([0, w])] if q else sorted(set([0, 1, w // 2, w - 1, w]))
        for f in fr:
            t, al, tg = c.ty(s, w, f), c.alias(s, w, f), c.tag(s, w, f)
            jobs.append(mk("c18_lin_" + tg, "lin", t, "Wrapping<%s>: + - neg, by-reference and assigning forms, bit operations, shifts by "
                           "u32/i8/u64/i128 (amount mod width), rounding methods, int/frac, sum of 3 equal F's wrapping_* for all operands" % al,
                           al, unwind=6))
            if s == "I":
                jobs.append(mk("c18_abs_" + tg, "sabs", t, "Wrapping<%s>: abs and sign predicates" % al, al))
            if w <= 32 and (f == w // 2 or not q):
                for form, what in ((0, "* and *="), (1, "* integer"), (2, "product of 3 / empty product")):
                    if form == 2 and w > 16 and q:
                        continue
                    jobs.append(mk("c18_mul%d_%s" % (form, tg), "mul", "%s, %d" % (t, form), "Wrapping<%s>: %s equal the exact product mod 2^W "
                                   "for all operands" % (al, what), al, unwind=6))
            if w == 8:
                jobs.append(mk("c18_div_" + tg, "div8", t, "Wrapping<%s>: / /= %% with fixed and integer divisors, div_euclid, rem_euclid and "
                               "their _int forms equal F's wrapping methods for all non-zero divisors" % al, al))
            if w == 16 and (f == w // 2 or not q):
                jobs.append(mk("c18_divw_" + tg, "divw", t, "Wrapping<%s>: / is trunc(a*2^f/b) when representable (multiply-back) and does "
                               "not panic on overflow" % al, al, timeout=1800))
            if w >= 32 and (f == w // 2 or not q):
                for (k, neg) in [(0, False), (w // 2 - 1, False)] + ([(0, True), (w - 2, True)] if s == "I" else [(w - 1, False)]):
                    jobs.append(mk("c18_divc_%s_%sp%d" % (tg, "m" if neg else "", k), "divc", "%s, %d, %s" % (t, k, "true" if neg else "false"),
                                   "Wrapping<%s>: / /= %% %%= (by value and by reference) by the constant divisor %s2^%d ulp equal the exact quotient / "
                                   "remainder mod 2^W for EVERY dividend, no panic on overflow" % (al, "-" if neg else "+", k), al,
                                   bounds="all dividends, divisor constant"))
            if w in (8, 64) and f == w // 2:
                for form in range(4):
                    jobs.append(mk("c18_divzero%d_%s" % (form, tg), "divzero", "%s, %d" % (t, form), "Wrapping<%s>: division/remainder by zero "
                                   "(form %d) panics and never returns" % (al, form), al, allow=[r"^(?!MUSTPANIC).* @ (?!src/)"],
                                   expect_fail=[r"^(?!MUSTPANIC).* @ (?!src/)"]))
            if f == w // 2:
                jobs.append(mk("c18_conv_" + tg, "conv", t, "Wrapping<%s>::from_num(i64 / u128 / I20F12) and to_num wrap like F" % al, al))
                if w in (8, 32) or not q:
                    jobs.append(mk("c18_convf_" + tg, "conv_float", t, "Wrapping<%s>::from_num(finite f32) wraps like F" % al, al, timeout=1800))
                if w <= 16 or (w == 32 and not q):
                    jobs.append(mk("c18_seq_" + tg, "seq", t, "Wrapping<%s>: every 3-operation program over {+,-=,*} equals the same sequence "
                                   "of wrapping_* calls" % al, al, unwind=6, timeout=1800, bounds="all operands, all 27 operator sequences"))
    # product / sum conventions on layouts that cannot represent 1 (no integer bit; one signed integer bit)
    for s, w in (("U", 8), ("I", 8), ("I", 16), ("U", 16)):
        for f in ((w, w - 1) if s == "I" else (w,)):
            t, al, tg = c.ty(s, w, f), c.alias(s, w, f), c.tag(s, w, f)
            if not any(j.name == "c18_mul2_" + tg for j in jobs):
                jobs.append(mk("c18_mul2_" + tg, "mul", "%s, 2" % t, "Wrapping<%s>: product of 3 / empty product equal repeated wrapping_mul "
                               "(a layout that cannot represent 1)" % al, al, unwind=6))
            if not any(j.name == "c18_mul0_" + tg for j in jobs):
                jobs.append(mk("c18_mul0_" + tg, "mul", "%s, 0" % t, "Wrapping<%s>: * and *= equal the exact product mod 2^W" % al, al, unwind=6))
    c.interleave(jobs)
    return {
        "feature": "c18",
        "jobs": jobs,
        "functions": ["wrapping.rs: operators (value, by-reference, assigning), shifts for integer amount types, Neg/Not, Sum/Product, "
                      "abs, rounding methods, div_euclid/rem_euclid(+_int), from_num/to_num, from_bits/to_bits"],
        "bounds": "all operands per instantiated alias; linear/bit/shift/rounding/sum for all ten families; multiplication forms for "
                  "widths 8..32; division forms for width 8 (all) and 16 (operator /, multiply-back); 3-operation programs for widths "
                  "8, 16 (32 thorough)",
        "outside": ["division on widths >= 32 with a symbolic divisor (every dividend is decided against constant power-of-two divisors) and "
                    "multiplication on 64/128 bits through Wrapping (the kernels are C01/C02's)",
                    "parsing through Wrapping (FromStr delegates to wrapping_from_str, C08)", "is_power_of_two / next_power_of_two / rotate"],
        "assumptions": ["zero divisors excluded except in the must-panic obligations", "non-finite floats excluded (C05)"],
        "stubs": [],
    }
