"""C06 – rounding functions against exact rounding."""
from core import Job
from . import common as c


def plan(tier, seed, kf_ids):
    jobs = []
    for s, w in c.FAMILIES:
        first = set(c.boundary_fracs7(w) + c.seeded_fracs(w, seed, 2))
        # every alias in both tiers (1-7 s each); in the quick tier the boundary and seeded counts are decided first and the
        # remaining ones as far as the run budget allows
        for f in c.all_fracs(w):
            name = "c06_" + c.tag(s, w, f)
            code = "#[kani::proof]\npub fn %s() { round_all::<%s>(); }" % (name, c.ty(s, w, f))
            jobs.append(Job(name, code,
                            "for every value of %s: overflowing/checked/saturating/wrapping/plain forms of floor, ceil, "
                            "round, round_ties_to_even equal exact integer rounding (flag, wrapped value, saturation "
                            "side); round_to_zero; int + frac == value, frac in [0,1)" % c.alias(s, w, f),
                            timeout=600, inst=c.alias(s, w, f), bounds="all 2^%d values" % w))
            jobs[-1].prio = 3 if f in first else 8
    return {
        "feature": "c06",
        "jobs": jobs,
        "functions": ["macros_round.rs: int, frac, round_to_zero, {,checked_,saturating_,wrapping_,overflowing_}"
                      "{ceil,floor,round,round_ties_to_even} via the Fixed trait delegation (traits.rs)"],
        "bounds": "every value of each of the 507 aliases (both tiers; the quick tier decides the fractional counts {0,1,2,W/2,W-2,W-1,W} + 2 "
                  "seeded per family first and the others as far as its run budget allows)",
        "outside": ["aliases not instantiated in the quick tier"],
        "assumptions": ["oracle: sign/magnitude rounding in u128/256-bit limbs (hk/src/c06.rs)",
                        "plain forms are only called when the result is representable (documented panic otherwise)"],
        "stubs": [],
    }
