"""C03 – comparisons order the exact values."""
import random
from core import Job
from . import common as c

INTS = ["i8", "i16", "i32", "i64", "i128", "isize", "u8", "u16", "u32", "u64", "u128", "usize"]


def layouts(w, tier, rnd):
    base = [0, w // 2, w]
    if tier == "thorough":
        base += [1, w - 1, rnd.randrange(0, w + 1), rnd.randrange(0, w + 1)]
    else:
        base += [rnd.choice([1, w - 1])]
    return sorted(set(base))


def plan(tier, seed, kf_ids):
    rnd = random.Random(seed + 303)
    jobs = []
    fams = c.FAMILIES
    # fixed vs fixed: every unordered pair of families (both operand orders inside the harness)
    for i, (s1, w1) in enumerate(fams):
        for (s2, w2) in fams[i:]:
            pairs = [(0, 0), (w1, w2), (w1 // 2, w2 // 2)]
            crossed = [(0, w2), (w1, 0), (1, w2 - 1), (w1 - 1, 1)]
            if tier == "quick":
                pairs = [(w1 // 2, w2 // 2), rnd.choice([(0, 0), (w1, w2)]), rnd.choice(crossed)]
            else:
                pairs += crossed
                for _ in range(6):
                    pairs.append((rnd.randrange(0, w1 + 1), rnd.randrange(0, w2 + 1)))
            for (f1, f2) in sorted(set(pairs)):
                if (s1, w1, f1) == (s2, w2, f2):
                    continue
                name = "c03_ff_%s_%s" % (c.tag(s1, w1, f1), c.tag(s2, w2, f2))
                code = "#[kani::proof]\npub fn %s() { ff::<%s, %s>(); }" % (name, c.ty(s1, w1, f1), c.ty(s2, w2, f2))
                jobs.append(Job(name, code,
                                "for all bit patterns x of %s and y of %s: ==,!=,<,<=,>,>=,partial_cmp of (x,y) and "
                                "(y,x) equal the comparison of the exact rationals" % (c.alias(s1, w1, f1), c.alias(s2, w2, f2)),
                                timeout=600, inst="%s~%s" % (c.alias(s1, w1, f1), c.alias(s2, w2, f2)),
                                bounds="all 2^%d operand pairs" % (w1 + w2)))
    # fixed vs primitive integers
    for (s, w) in fams:
        fr = [rnd.choice([0, 1, w // 2, w - 1, w])] if tier == "quick" else sorted(set([0, 1, w // 2, w - 1, w, rnd.randrange(0, w + 1)]))
        for f in sorted(set(fr)):
            for it in INTS:
                name = "c03_fi_%s_%s" % (c.tag(s, w, f), it)
                code = "#[kani::proof]\npub fn %s() { fi::<%s, %s>(); }" % (name, c.ty(s, w, f), it)
                jobs.append(Job(name, code,
                                "for all x of %s and all %s y: six operators and partial_cmp, both orders, "
                                "equal the exact comparison" % (c.alias(s, w, f), it),
                                timeout=900, inst="%s~%s" % (c.alias(s, w, f), it), bounds="all operand pairs"))
    # fixed vs floats: every float bit pattern
    big = rnd.choice([fm for fm in fams if fm[1] >= 64])
    for (s, w) in fams:
        if tier == "quick":
            if w >= 64 and (s, w) != big:
                continue
            fr = [rnd.choice([0, w // 2, w])]
        else:
            fr = sorted(set([0, 1, w // 2, w - 1, w, rnd.randrange(0, w + 1)]))
        for f in sorted(set(fr)):
            for ft in ("f32", "f64"):
                for g, gname in enumerate(("eq", "pcmp", "lt", "ge", "gt", "le")):
                    name = "c03_fl_%s_%s_%s" % (c.tag(s, w, f), ft, gname)
                    code = "#[kani::proof]\npub fn %s() { ffl::<%s, %s, %d>(); }" % (name, c.ty(s, w, f), ft, g)
                    jobs.append(Job(name, code,
                                    "for all x of %s and every %s bit pattern y (zeros, subnormals, normals, inf, NaN): "
                                    "operator group %s (both operand orders) equals the exact comparison; NaN "
                                    "unordered/unequal; inf outside" % (c.alias(s, w, f), ft, gname),
                                    timeout=900, inst="%s~%s" % (c.alias(s, w, f), ft),
                                    bounds="all fixed bit patterns x all float bit patterns"))
    # same type
    for (s, w) in fams:
        for f in ([w // 2] if tier == "quick" else sorted(set([0, w // 2, w]))):
            name = "c03_same_%s" % c.tag(s, w, f)
            code = "#[kani::proof]\n#[kani::unwind(18)]\npub fn %s() { same::<%s>(); }" % (name, c.ty(s, w, f))
            jobs.append(Job(name, code,
                            "for all x,y of %s: Ord::cmp/max and ==..>= are the value order; Hash feeds exactly "
                            "the bytes of the bits" % c.alias(s, w, f),
                            timeout=600, inst=c.alias(s, w, f), bounds="all operand pairs; hasher loop unwound 18"))
    c.interleave(jobs)
    return {
        "engine_m": ["tofixed"],
        "feature": "c03",
        "jobs": jobs,
        "functions": ["cmp.rs: PartialEq/PartialOrd between Fixed* (all family pairs), Fixed*~{i8..i128,isize,u8..u128,usize}, "
                      "Fixed*~{f32,f64}; Eq/Ord/Hash of Fixed*", "int_helper.rs: IntHelper::to_fixed_helper, to_repr_fixed",
                      "float_helper.rs: FloatHelper::to_float_kind, parts, is_nan"],
        "bounds": "every bit pattern of both operands for each instantiated (type, type) pair; the set of layout "
                  "pairs per family pair is the boundary set {(0,0),(W1,W2),(0,W2),(W1,0),(W1/2,W2/2),(1,W2-1),(W1-1,1)} "
                  "plus seeded pairs",
        "outside": ["layout pairs not instantiated", "f16/bf16 (optional feature)"],
        "assumptions": ["oracle: sign/magnitude comparison in 256-bit limbs written in hk/src/util.rs, c03.rs"],
        "stubs": [],
    }
