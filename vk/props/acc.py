"""Enclosure generator and job builders for the accuracy properties C13-C16 (needs mpmath)."""
import random
from core import Job
from . import trans as T

S = 40  # extra scaling bits of the enclosure constants


def iv():
    from mpmath import iv as _iv
    _iv.prec = 200
    return _iv


def _floor(x):
    import mpmath
    return int(mpmath.floor(x))


def _ceil(x):
    import mpmath
    return int(mpmath.ceil(x))


def enclosure(fun, dfun, c_bits, k, fs, fd):
    """linear enclosure of fun over [c, c + 2^k ulps]: returns (ALO, BLO, AHI, BHI) scaled by 2^(fd+S)"""
    I = iv()
    import mpmath
    mpmath.mp.prec = 220
    c = I.mpf(c_bits) / I.mpf(2) ** fs
    w = I.mpf(2) ** (k - fs)
    whole = I.mpf([c.a, (c + w).b])
    fc = fun(I, c)
    d = dfun(I, whole)
    u = I.mpf(2) ** (-fs)
    sc = I.mpf(2) ** (fd + S)
    alo = _floor((fc * sc).a)
    ahi = _ceil((fc * sc).b)
    blo = _floor((d * u * sc).a)
    bhi = _ceil((d * u * sc).b)
    return alo, blo, ahi, bhi


FUNS = {
    "log2": (lambda I, x: I.log(x) / I.log(2), lambda I, x: 1 / (x * I.log(2))),
    "ln": (lambda I, x: I.log(x), lambda I, x: 1 / x),
    "exp": (lambda I, x: I.exp(x), lambda I, x: I.exp(x)),
    "sqrt": (lambda I, x: I.sqrt(x), lambda I, x: 1 / (2 * I.sqrt(x))),
    "sin": (lambda I, x: I.sin(x), lambda I, x: I.cos(x)),
    "cos": (lambda I, x: I.cos(x), lambda I, x: -I.sin(x)),
}


def acc1(prefix, fun, s_alias, d_alias, c_bits, k, tol_abs, tol_rel_shift, must_ok, unwind, timeout=1800, tag=None):
    inner, w, fs, sg = T.TYPES[s_alias]
    fd = T.TYPES[d_alias][2]
    alo, blo, ahi, bhi = enclosure(FUNS[fun][0], FUNS[fun][1], c_bits, k, fs, fd)
    name = "%s_%s_%s_%s" % (prefix, fun, s_alias.lower(), tag or ("c%d" % c_bits).replace("-", "m"))
    code = "tr_acc1!(%s, %d, %s, %s, %s, %s, %d, %d, %d, %d, %d, %d, %d, %d, %d, %s);" % (
        name, unwind, s_alias, d_alias, inner, fun, c_bits, k, alo, blo, ahi, bhi, S, tol_abs, tol_rel_shift,
        "true" if must_ok else "false")
    x0 = c_bits / 2.0 ** fs
    j = Job(name, code, "%s::<%s,%s> for all %d operands from %.9g (bits %d): Ok%s and within %d ulp%s of the true value "
            "(mpmath interval enclosure, linear in the operand)" % (fun, s_alias, d_alias, 1 << k, x0, c_bits,
                                                                   " required" if must_ok else " not required", tol_abs,
                                                                   (" + 2^-%d relative" % tol_rel_shift) if tol_rel_shift else ""),
            timeout=timeout, inst="%s %s->%s" % (fun, s_alias, d_alias), bounds="neighbourhood of 2^%d operands" % k)
    if k == 0:
        j.concrete = "vec![]"
        j.bounds = "ONE operand (a constant folded by the solver's front end): a witness on this type pair, not a universally quantified obligation"
    return j


def acc1v(prefix, fun, alias, c_bits, k, tol_abs, unwind, timeout=900, tag=None):
    """value-returning function (sin, cos) at one operand / on a neighbourhood of 2^k operands"""
    inner, w, f, sg = T.TYPES[alias]
    alo, blo, ahi, bhi = enclosure(FUNS[fun][0], FUNS[fun][1], c_bits, k, f, f)
    name = "%s_%s_%s_%s" % (prefix, fun, alias.lower(), tag or ("p%d" % c_bits).replace("-", "m"))
    code = "tr_acc1v!(%s, %d, %s, %s, %s, %d, %d, %d, %d, %d, %d, %d, %d);" % (name, unwind, alias, inner, fun, c_bits, k, alo, blo, ahi, bhi, S, tol_abs)
    j = Job(name, code, "%s::<%s> for the %d operand(s) from %.9g (bits %d): within %d ulp of the true value (mpmath interval enclosure)"
            % (fun, alias, 1 << k, c_bits / 2.0 ** f, c_bits, tol_abs), timeout=timeout, inst="%s %s" % (fun, alias),
            bounds="neighbourhood of 2^%d operands" % k)
    if k == 0:
        j.concrete = "vec![]"
        j.bounds = "ONE operand (a constant folded by the solver's front end): a witness on this type, not a universally quantified obligation"
    return j


def sqrt_job(prefix, s_alias, d_alias, c_bits, k, must_ok, unwind, timeout=1800, kf=None, tag=None):
    inner, w, fs, sg = T.TYPES[s_alias]
    fd = T.TYPES[d_alias][2]
    assert fs == fd
    name = "%s_sqrt_%s_%s" % (prefix, s_alias.lower(), tag or ("c%d" % c_bits).replace("-", "m"))
    code = "tr_acc_sqrt!(%s, %d, %s, %s, %s, %d, %d, %d, %s);" % (name, unwind, s_alias, d_alias, inner, c_bits, k, fd,
                                                             "true" if must_ok else "false")
    j = Job(name, code, "sqrt::<%s,%s> for all %d operands from %.9g (bits %d): r >= 0 and (r-4)^2 <= x*2^F <= (r+4)^2 in exact "
               "integer arithmetic; 0 and 1 exact; Ok%s" % (s_alias, d_alias, 1 << k, c_bits / 2.0 ** fs, c_bits,
                                                             " required" if must_ok else " not required"),
            timeout=timeout, inst="sqrt %s->%s" % (s_alias, d_alias), bounds="neighbourhood of 2^%d operands" % k, kf=kf)
    if k == 0:
        j.concrete = "vec![]"   # no symbolic input at all
    return j


def trig_job(prefix, fun, alias, base_bits, npieces, pb, unwind, timeout=2400):
    inner, w, f, sg = T.TYPES[alias]
    cols = [[], [], [], []]
    for i in range(npieces):
        e = enclosure(FUNS[fun][0], FUNS[fun][1], base_bits + (i << pb), pb, f, f)
        for j in range(4):
            cols[j].append(e[j])
    arr = lambda v: "[" + ", ".join(map(str, v)) + "]"
    tol = 1 << (f - 16)
    rng = (1 << f) + tol
    name = "%s_%s_%s_b%s" % (prefix, fun, alias.lower(), str(base_bits).replace("-", "m"))
    code = "tr_acc_trig!(%s, %d, %s, %s, %s, %d, %d, %d, %s, %s, %s, %s, %d, %d, %d);" % (
        name, unwind, alias, inner, fun, base_bits, npieces, pb, arr(cols[0]), arr(cols[1]), arr(cols[2]), arr(cols[3]), S, tol, rng)
    lo = base_bits / 2.0 ** f
    hi = (base_bits + (npieces << pb)) / 2.0 ** f
    return Job(name, code, "%s::<%s> for every angle in [%.6f, %.6f): within 2^-16 of the true value (piecewise-linear enclosure, %d "
               "pieces of 2^%d ulps, mpmath interval arithmetic) and inside [-1-2^-16, 1+2^-16]" % (fun, alias, lo, hi, npieces, pb),
               timeout=timeout, inst="%s %s" % (fun, alias), bounds="all %d angles of the interval" % (npieces << pb))
