"""C09 – formatting is faithful."""
import random
from core import Job
from . import common as c


def plan(tier, seed, kf_ids):
    rnd = random.Random(seed + 909)
    q = tier == "quick"
    jobs = []
    lay = [("U", 4), ("I", 4), ("U", 0), ("I", 7), ("U", 8)] if q else [(s, f) for s in ("U", "I") for f in range(9)]
    if q:
        lay.append((rnd.choice(["U", "I"]), rnd.choice([1, 2, 3, 5, 6])))
    for (s, f) in lay:
        t, i, al, tg = c.ty(s, 8, f), c.inner(s, 8), c.alias(s, 8, f), c.tag(s, 8, f)
        kinds = [("display", "c09_display!(%s, %s, %s, %d);", "{} and {:?}: printed digits are the value correctly rounded (nearest, ties "
                  "to even) at the digits shown, sign only for negatives, FromStr(output) == x"),
                 ("prec", "c09_prec!(%s, %s, %s, %d, 10);", "{:.p} for every p <= 10: exactly p fraction digits, correctly rounded"),
                 ("radix", "c09_radix!(%s, %s, %s, %d);", "{:b} {:o} {:x} {:X}: output parses back (same radix) to exactly x; digit case"),
                 ("flags", "c09_flags!(%s, %s, %s, %d);", "{:+} {:>w} {:*<w} {:0w} {:#x} {:^+w} (w <= 14): only padding, sign and prefix "
                  "are added around the flag-free digits")]
        for kind, tmpl, desc in kinds:
            if q and kind in ("radix", "flags") and (s, f) not in (("U", 4), ("I", 4)):
                continue
            name = "c09_%s_%s" % (kind, tg)
            jobs.append(Job(name, tmpl % (name, t, i, f), "for every value of %s: %s" % (al, desc), timeout=3000, inst=al,
                            bounds="all 256 values" + ("; p <= 10" if kind == "prec" else "") + ("; widths <= 14, 6 format strings" if kind == "flags" else ""),
                            kani_args=[]))
    for k in kf_ids:
        jobs.append(Job("kfw_" + k, "", "witness of known finding %s (concrete operands)" % k, timeout=900, kf=k,
                        inst="witness", bounds="concrete operands"))
    return {
        "feature": "c09",
        "jobs": jobs,
        "functions": ["display.rs: fmt_dec, fmt_radix2, FmtHelper::{write_int,write_frac,write_int_dec,write_frac_dec}, "
                      "Buffer::{round_and_trim,encode_digits,pad_and_print}; Display/Debug/Binary/Octal/LowerHex/UpperHex impls",
                      "from_str.rs (round trip through the real parser)"],
        "bounds": "8-bit types (quick: 6 layouts, thorough: all 18): every value; precision 0..=10; widths 0..=14 with six "
                  "flag combinations; output buffer 48 bytes; loops unwound 52",
        "outside": ["16/32/64/128-bit types (the fmt machinery on wider words does not finish in the time available)",
                    "precision > 10, width > 14, other fill/flag combinations"],
        "assumptions": ["core::str::from_utf8 is stubbed by an ASCII-asserting equivalent (display.rs only passes its own digit buffer)"],
        "stubs": ["core::str::from_utf8 -> c09::ascii_from_utf8"],
    }
