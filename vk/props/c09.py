"""C09 – formatting is faithful."""
import random
from core import Job
from . import common as c


FRAC_DEC = [("u8", 8, [8, 5, 4], 4), ("u16", 16, [16, 9, 8, 7], 5), ("u32", 32, [32, 17, 16, 15], 6), ("u64", 64, [64, 33, 32, 31], 6), ("u128", 128, [128, 65, 64, 63], 6)]
INT_DEC = [("u8", 3), ("u16", 5)]   # wider words: 10..39 dependent divisions by ten, no verdict in 8 min


def plan(tier, seed, kf_ids):
    rnd = random.Random(seed + 909)
    q = tier == "quick"
    jobs = []
    lay = [("U", 4), ("I", 4), ("U", 0), ("I", 7), ("U", 8)] if q else [(s, f) for s in ("U", "I") for f in range(9)]
    for (s, f) in lay:
        t, i, al, tg = c.ty(s, 8, f), c.inner(s, 8), c.alias(s, 8, f), c.tag(s, 8, f)
        kinds = [("display", "c09_display!(%s, %s, %s, %d);", "{}: printed digits are the value correctly rounded (nearest, ties to even) at "
                  "the digits shown, sign only for negatives"),
                 ("roundtrip", "c09_roundtrip!(%s, %s, %s, %d);", "FromStr({:?} output) == x through the real parser"),
                 ("prec", "c09_prec!(%s, %s, %s, %d, 8);", "{:.p} for every p <= 8: exactly p fraction digits, correctly rounded")]
        for wh, nm in enumerate(("bin", "oct", "hex", "HEX")):
            kinds.append(("radix_" + nm, "c09_radix!(%%s, %%s, %%s, %%d, %d);" % wh, "{:%s}: the printed digits are exactly the value "
                          "(N * 2^f == |bits| * radix^k), digit case as requested" % "boxX"[wh]))
        for wh, nm in enumerate(("plus", "right", "fill_left", "zero", "alt_hex", "centre_plus", "width_prec")):
            kinds.append(("flags_" + nm, "c09_flags!(%%s, %%s, %%s, %%d, %d);" % wh, "format flags '%s' with width <= 12 only add padding, sign "
                          "and prefix around the flag-free digits" % nm))
        QUICK = {("display", "U", 4), ("display", "I", 7), ("display", "U", 8), ("prec", "U", 0), ("prec", "I", 4), ("roundtrip", "U", 8),
                 ("radix_hex", "U", 4), ("radix_bin", "I", 4), ("flags_alt_hex", "I", 4), ("flags_width_prec", "I", 4)}
        for kind, tmpl, desc in kinds:
            if q and (kind, s, f) not in QUICK:
                continue
            name = "c09_%s_%s" % (kind, tg)
            jobs.append(Job(name, tmpl % (name, t, i, f), "for every value of %s: %s" % (al, desc), timeout=3000, inst=al,
                            bounds="all 256 values" + ("; p <= 8" if kind == "prec" else "") + ("; widths <= 12" if kind.startswith("flags") else ""),
                            mem_gb=20))
    # 16-bit layouts: the half-width delegation (nbits < NBITS/2 -> narrower word) sits exactly at f = 8
    for (s, f) in ([("U", 8)] if q else [("U", 8), ("U", 7), ("I", 9), ("I", 8)]):
        t, i, al, tg = c.ty(s, 16, f), c.inner(s, 16), c.alias(s, 16, f), c.tag(s, 16, f)
        for kind, tmpl, desc in (("display", "c09_display!(%s, %s, %s, %d);", "{}: correctly rounded digits, sign"),
                                 ("roundtrip", "c09_roundtrip!(%s, %s, %s, %d);", "FromStr({:?} output) == x through the real parser")):
            if q and kind == "display":
                continue
            name = "c09_%s_%s" % (kind, tg)
            jobs.append(Job(name, tmpl % (name, t, i, f), "for every value of %s: %s" % (al, desc), timeout=900, inst=al,
                            bounds="all 65536 values", mem_gb=20))
            jobs[-1].prio = 9    # 4-6 min: decided last, when the run budget allows
    # ---- digit-generation kernels through the verif_display_kernels hook: every word size
    for u in ("u8", "u16", "u32", "u64", "u128"):
        nm = "c09_kernel_mul10_%s" % u
        jobs.append(Job(nm, "c09_mul10!(%s, mul10_%s, %s);" % (nm, u, u), "mul10_assign of %s for every x: x*10 = digit*2^W + low" % u, timeout=600,
                        inst="Mul10 for " + u, bounds="all values of the word"))
        jobs[-1].prio = 1
    for (u, w, nbl, nmax) in FRAC_DEC:
        for nb in nbl:
            nm = "c09_kernel_fracdec_%s_n%d" % (u, nb)
            jobs.append(Job(nm, "c09_frac_dec!(%s, frac_dec_%s, %s, %d, %d, %d);" % (nm, u, u, nb, nmax, nmax + 3),
                            "write_frac_dec of %s at %d fractional bits, requested precision 1..=%d, for every fraction: exact digits, remainder ordering, "
                            "cut-off only by the close-to-zero rule" % (u, nb, nmax), timeout=600, inst="write_frac_dec for " + u,
                            bounds="all fraction registers; 1..=%d digits" % nmax))
            jobs[-1].prio = 8 if (u, nb) == ("u128", 128) else 2
    for (u, nd) in INT_DEC:
        nm = "c09_kernel_intdec_%s_d%d" % (u, nd)
        jobs.append(Job(nm, "c09_int_dec!(%s, int_dec_%s, %s, %d, %d);" % (nm, u, u, nd, nd + 3),
                        "write_int_dec of %s with %d digits allocated, every integer below 10^%d: the digits are its decimal expansion" % (u, nd, nd),
                        timeout=600, inst="write_int_dec for " + u, bounds="all integers below 10^%d" % nd))
        jobs[-1].prio = 2
    for k in kf_ids:
        jobs.append(Job("kfw_" + k, "", "witness of known finding %s (concrete operands)" % k, timeout=900, kf=k,
                        inst="witness", bounds="concrete operands"))
    return {
        "workers": 10,
        "feature": "c09",
        "jobs": jobs,
        "functions": ["display.rs: fmt_dec, fmt_radix2, FmtHelper::{write_int,write_frac,write_int_dec,write_frac_dec}, "
                      "Buffer::{round_and_trim,encode_digits,pad_and_print}; Display/Debug/Binary/Octal/LowerHex/UpperHex impls",
                      "from_str.rs (round trip through the real parser)"],
        "bounds": "8-bit types (quick: nine (kind, layout) obligations of 6-14 min each, thorough: every kind on all 18 layouts): every value; precision 0..=8; widths 0..=12 with six "
                  "flag combinations; output buffer 26 bytes; loops unwound 28",
        "outside": ["32/64/128-bit types; 16-bit types beyond Display/Debug of U8F8 (quick) / U8F8, U9F7, I7F9, I8F8 (thorough): 4-6 min per query",
                    "precision > 8, width > 12, other fill/flag combinations"],
        "assumptions": ["core::str::from_utf8 is stubbed by an ASCII-asserting equivalent (display.rs only passes its own digit buffer)"],
        "stubs": ["core::str::from_utf8 -> c09::ascii_from_utf8"],
    }
