"""C09 – formatting is faithful."""
import random
from core import Job
from . import common as c


def plan(tier, seed, kf_ids):
    rnd = random.Random(seed + 909)
    q = tier == "quick"
    jobs = []
    lay = [("U", 4), ("I", 4), ("U", 0), ("I", 7), ("U", 8)] if q else [(s, f) for s in ("U", "I") for f in range(9)]
    for (s, f) in lay:
        t, i, al, tg = c.ty(s, 8, f), c.inner(s, 8), c.alias(s, 8, f), c.tag(s, 8, f)
        kinds = [("display", "c09_display!(%s, %s, %s, %d);", "{}: printed digits are the value correctly rounded (nearest, ties to even) at "
                  "the digits shown, sign only for negatives"),
                 ("roundtrip", "c09_roundtrip!(%s, %s, %s, %d);", "FromStr({:?} output) == x through the real parser"),
                 ("prec", "c09_prec!(%s, %s, %s, %d, 8);", "{:.p} for every p <= 8: exactly p fraction digits, correctly rounded")]
        for wh, nm in enumerate(("bin", "oct", "hex", "HEX")):
            kinds.append(("radix_" + nm, "c09_radix!(%%s, %%s, %%s, %%d, %d);" % wh, "{:%s}: the printed digits are exactly the value "
                          "(N * 2^f == |bits| * radix^k), digit case as requested" % "boxX"[wh]))
        for wh, nm in enumerate(("plus", "right", "fill_left", "zero", "alt_hex", "centre_plus", "width_prec")):
            kinds.append(("flags_" + nm, "c09_flags!(%%s, %%s, %%s, %%d, %d);" % wh, "format flags '%s' with width <= 12 only add padding, sign "
                          "and prefix around the flag-free digits" % nm))
        QUICK = {("display", "U", 4), ("display", "I", 7), ("display", "U", 8), ("prec", "U", 0), ("prec", "I", 4), ("roundtrip", "U", 8),
                 ("radix_hex", "U", 4), ("radix_bin", "I", 4), ("flags_alt_hex", "I", 4), ("flags_width_prec", "I", 4)}
        for kind, tmpl, desc in kinds:
            if q and (kind, s, f) not in QUICK:
                continue
            name = "c09_%s_%s" % (kind, tg)
            jobs.append(Job(name, tmpl % (name, t, i, f), "for every value of %s: %s" % (al, desc), timeout=3000, inst=al,
                            bounds="all 256 values" + ("; p <= 8" if kind == "prec" else "") + ("; widths <= 12" if kind.startswith("flags") else ""),
                            mem_gb=20))
    # 16-bit layouts: the half-width delegation (nbits < NBITS/2 -> narrower word) sits exactly at f = 8
    for (s, f) in ([("U", 8)] if q else [("U", 8), ("U", 7), ("I", 9), ("I", 8)]):
        t, i, al, tg = c.ty(s, 16, f), c.inner(s, 16), c.alias(s, 16, f), c.tag(s, 16, f)
        for kind, tmpl, desc in (("display", "c09_display!(%s, %s, %s, %d);", "{}: correctly rounded digits, sign"),
                                 ("roundtrip", "c09_roundtrip!(%s, %s, %s, %d);", "FromStr({:?} output) == x through the real parser")):
            if q and kind == "display":
                continue
            name = "c09_%s_%s" % (kind, tg)
            jobs.append(Job(name, tmpl % (name, t, i, f), "for every value of %s: %s" % (al, desc), timeout=900, inst=al,
                            bounds="all 65536 values", mem_gb=20))
            jobs[-1].prio = 9    # 4-6 min: decided last, when the run budget allows
    for k in kf_ids:
        jobs.append(Job("kfw_" + k, "", "witness of known finding %s (concrete operands)" % k, timeout=900, kf=k,
                        inst="witness", bounds="concrete operands"))
    return {
        "workers": 10,
        "feature": "c09",
        "jobs": jobs,
        "functions": ["display.rs: fmt_dec, fmt_radix2, FmtHelper::{write_int,write_frac,write_int_dec,write_frac_dec}, "
                      "Buffer::{round_and_trim,encode_digits,pad_and_print}; Display/Debug/Binary/Octal/LowerHex/UpperHex impls",
                      "from_str.rs (round trip through the real parser)"],
        "bounds": "8-bit types (quick: nine (kind, layout) obligations of 6-14 min each, thorough: every kind on all 18 layouts): every value; precision 0..=8; widths 0..=12 with six "
                  "flag combinations; output buffer 26 bytes; loops unwound 28",
        "outside": ["32/64/128-bit types; 16-bit types beyond Display/Debug of U8F8 (quick) / U8F8, U9F7, I7F9, I8F8 (thorough): 4-6 min per query",
                    "precision > 8, width > 12, other fill/flag combinations"],
        "assumptions": ["core::str::from_utf8 is stubbed by an ASCII-asserting equivalent (display.rs only passes its own digit buffer)"],
        "stubs": ["core::str::from_utf8 -> c09::ascii_from_utf8"],
    }
