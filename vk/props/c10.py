"""C10 – SCALE encoding and byte views."""
from core import Job
from . import common as c


def plan(tier, seed, kf_ids):
    jobs = []
    for s, w in c.FAMILIES:
        if tier == "quick":
            fr = sorted(set([0, w // 2, w] + c.seeded_fracs(w, seed, 1)))
        else:
            fr = sorted(set(c.boundary_fracs7(w) + c.seeded_fracs(w, seed, 6)))
        for f in fr:
            t, i, n = c.ty(s, w, f), c.inner(s, w), w // 8
            tg = c.tag(s, w, f)
            jobs.append(Job(
                "c10_enc_" + tg, "c10_enc!(c10_enc_%s, %s, %s, %d);" % (tg, t, i, n),
                "for every bit pattern b of %s: to_bits/to_{le,be,ne}_bytes/encode/encoded_size/"
                "max_encoded_len equal the integer's LE bytes, decode(encode(x))==x consuming all input, "
                "Wrapping from_bits/to_bits identity" % c.alias(s, w, f),
                timeout=300, inst=c.alias(s, w, f), bounds="all 2^%d bit patterns" % w))
            jobs.append(Job(
                "c10_dec_" + tg, "c10_dec!(c10_dec_%s, %s, %s, %d);" % (tg, t, i, n),
                "for every byte string of length %d (+1 trailing byte) and every shorter prefix: "
                "from_{le,be,ne}_bytes inverse of to_*, decode = LE integer leaving the trailing byte, "
                "decode of fewer than %d bytes is Err" % (n, n),
                timeout=300, inst=c.alias(s, w, f), bounds="all 2^%d byte strings, all shorter lengths" % w))
    c.interleave(jobs)
    return {
        "feature": "c10",
        "jobs": jobs,
        "functions": ["Fixed*::{from_bits,to_bits,to_le_bytes,to_be_bytes,to_ne_bytes,from_le_bytes,"
                      "from_be_bytes,from_ne_bytes}", "<Fixed* as codec::Encode>::{encode,encoded_size,using_encoded}",
                      "<Fixed* as codec::Decode>::decode", "<Fixed* as codec::MaxEncodedLen>::max_encoded_len",
                      "Wrapping::{from_bits,to_bits}"],
        "bounds": "every bit pattern / byte string of the exact width; decode inputs of length 0..=width/8+1; "
                  "loops unwound 18 (>= 16 bytes + 1) with unwinding assertions on",
        "outside": ["serde {bits} representation (optional feature not built by this harness crate)",
                    "fractional counts other than those listed in instantiations (the encoding code is "
                    "generic in Frac and never reads it)", "big-endian targets"],
        "assumptions": ["target is little-endian x86_64 as compiled by Kani", "parity-scale-codec's Vec<u8> output "
                        "and &[u8] Input are executed symbolically un-stubbed"],
        "stubs": [],
    }
