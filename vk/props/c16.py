"""C16 – sin / cos / tan accuracy."""
import math
import random
from core import Job
from . import acc
from . import trans as T


def plan(tier, seed, kf_ids):
    rnd = random.Random(seed + 1616)
    q = tier == "quick"
    jobs = []
    a = "I9F23"
    F = 23
    # primary range [-pi - 2^-6, pi + 2^-6) in intervals of 2^21 ulps (0.25) = 64 pieces of 2^15 ulps (2^-8)
    lo = int(math.floor((-math.pi - 2.0 ** -6) * (1 << F)))
    hi = int(math.ceil((math.pi + 2.0 ** -6) * (1 << F)))
    bases = list(range(lo, hi, 1 << 21))
    if q:
        pick = set()
        for x in (0.0, math.pi / 2, -math.pi):
            xb = int(x * (1 << F))
            pick.add(max(b for b in bases if b <= xb))
        pick.add(rnd.choice(bases))
        bases_s = sorted(pick)
    else:
        bases_s = bases
    for b in bases_s:
        jobs.append(acc.trig_job("c16", "sin", a, b, 64, 15, 30))
    for b in (bases_s if not q else bases_s[1:2]):
        jobs.append(acc.trig_job("c16", "cos", a, b, 64, 15, 30))
    # far angles: a few intervals at the edge of |x| <= 200 (direct), and exact range reduction for all |x| <= 200
    far = [int(-200 * (1 << F))] if q else [int(x * (1 << F)) for x in (199.75, -200, 100.0, -57.3, 31.25, 12.5)]
    for b in far:
        jobs.append(acc.trig_job("c16", "sin", a, b, 64, 15, 30))
    for al, f in (("I9F23", 23), ("I32F32", 32)) if q else (("I9F23", 23), ("I32F32", 32), ("I16F48", 48), ("I64F64", 64)):
        name = "c16_reduce_%s" % al.lower()
        code = "tr_reduce!(%s, 30, %s, %s, %d, 200);" % (name, al, T.TYPES[al][0], f)
        jobs.append(Job(name, code, "sin::<%s>: for every |x| <= 200 the angle handed to the CORDIC core (observe hook after the mirror "
                        "step) is exactly m(x - k*TWO_PI) with |k| <= 32 and lies in [-pi/2, pi/2]" % al, timeout=2400,
                        inst="sin %s range reduction" % al, bounds="all operands with |x| <= 200"))
    # single angles on every supported type (constants folded by the front end: witnesses, not quantified obligations)
    for al in ("I9F23", "I32F32", "I16F48", "I64F64", "I40F88"):
        f = T.TYPES[al][2]
        for fun, x in (("sin", math.pi / 4), ("sin", 1.0), ("sin", -199.9), ("cos", math.pi / 4), ("cos", 2.5), ("sin", math.atan(1) - math.atan(0.5)), ("cos", 100.25)):
            if f + acc.S + 2 > 126:
                continue   # the enclosure constants are i128
            jobs.append(acc.acc1v("c16", fun, al, int(x * (1 << f)), 0, 1 << (f - 16), 30))
            jobs[-1].prio = 1
    return {
        "feature": "c16",
        "jobs": jobs,
        "functions": ["transcendental.rs: sin, cos, cordic_rotation; the % of the fixed type (argument reduction)"],
        "bounds": "I9F23: sin/cos against a piecewise-linear enclosure (pieces of 2^-8, gap < 2^-18) on intervals of width 0.25: "
                  "quick = the intervals containing 0, +-pi/2, +-pi, one seeded, and two at |x| ~ 200; thorough = all 27 intervals of "
                  "[-pi-2^-6, pi+2^-6) plus six far intervals; exact argument reduction for every |x| <= 200 (I9F23, I32F32; thorough "
                  "also I16F48, I64F64)",
        "outside": ["tan accuracy (the division by 1+cos(2x) on top of two CORDIC runs did not finish within the budget)",
                    "sin/cos accuracy of the CORDIC core on 64/128-bit types (only their argument reduction is decided); composition "
                    "argument for far angles: |sin x - sin x'| <= |k| |TWO_PI - 2 pi| <= 32 * 2^-23 (Lipschitz), stated in DESIGN.md"],
        "assumptions": ["enclosure tables from mpmath.iv at 200 bits, outward rounded; a refutation smaller than the enclosure gap "
                        "(2^-18) cannot be distinguished from a correct result and is not reported"],
        "stubs": [],
    }
