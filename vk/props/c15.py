"""C15 – exp / pow / powi accuracy."""
import random
from core import Job
from . import acc
from . import trans as T


def plan(tier, seed, kf_ids):
    rnd = random.Random(seed + 1515)
    q = tier == "quick"
    jobs = []
    a = "I9F23"
    F = 23
    one = 1 << F
    xs = [-5.0, -1.0, -0.001, 0.0, 0.5, 1.0, 2.0, 4.0, 5.5] if q else [-8.0, -5.0, -3.0, -1.0, -0.5, -0.001, 0.0, 0.001, 0.5, 1.0, 1.5, 2.0, 3.0, 4.0, 5.0, 5.5]
    xs += [rnd.uniform(-6, 5.5) for _ in range(2 if q else 10)]
    for x in xs:
        c = int(round(x * one)) - 128
        jobs.append(acc.acc1("c15", "exp", a, a, c, 8, 64, 20, False, 30))
    for (sa, da, x) in (("I32F32", "I32F32", 2.0), ("I32F32", "I32F32", -1.0), ("I32F32", "I32F32", 10.0), ("I9F23", "I32F32", -1.0), ("I9F23", "I16F48", 6.0),
                        ("I16F48", "I16F48", 2.5), ("I32F32", "I64F64", -1.0), ("I64F64", "I64F64", 5.0), ("I9F23", "I9F23", -1.0)):
        fsrc = T.TYPES[sa][2]
        jobs.append(acc.acc1("c15", "exp", sa, da, int(x * (1 << fsrc)), 0, 64, 20, True, 140, timeout=600,
                             tag="w_%s_%s_c%s" % (sa.lower(), da.lower(), str(int(x * (1 << fsrc))).replace("-", "m"))))
        jobs[-1].prio = 1
    # powi conventions and small exponents, exact rational oracle
    for name, body in (("c15_powi_conv_i9f23", '''
    let b: i32 = kani::any();
    let n: i32 = kani::any();
    let x = I9F23::from_bits(b);
    hooks::reset(u64::MAX);
    kani::assume(n == 0 || n == 1);
    let r = tf::powi::<I9F23, I9F23>(x, n);
    let one = 1i32 << 23;
    kani::cover!(b != 0 && n == 0, "W:x^0");
    if b == 0 { assert!(r == Ok(I9F23::from_bits(0)), "0^n = 0"); }
    else if n == 0 { assert!(r == Ok(I9F23::from_bits(one)), "x^0 = 1"); }
    else { assert!(r == Ok(x), "x^1 = x"); }
    let y = I9F23::from_bits(kani::any());
    let z = tf::pow::<I9F23, I9F23>(I9F23::from_bits(0), y);
    assert!(z == Ok(I9F23::from_bits(0)), "0^y = 0");'''),
                       ("c15_powi_neg_i9f23", '''
    let b: i32 = family_i(32) as i32;   // every binade +-255 ulps, extremes (the full range did not finish in 30 min)
    let n: i32 = kani::any();
    kani::assume(n >= 1 && n <= 3);
    kani::assume(b != 0);   // 0^n = 0 by convention for every n (checked in c15_powi_conv)
    let x = I9F23::from_bits(b);
    hooks::reset(u64::MAX);
    let rn = tf::powi::<I9F23, I9F23>(x, -n);
    let rp = tf::powi::<I9F23, I9F23>(x, n);
    kani::cover!(rn.is_ok() && b < 0 && n == 3, "W:negative base, odd negative exponent");
    // x^-n is the truncated reciprocal of x^n: |q| |p| <= 2^46 < (|q|+1) |p| with the sign of p (multiply-back, one division)
    match (rp, rn) {
        (Ok(p), Ok(q)) => {
            let pb = p.to_bits() as i128;
            let qb = q.to_bits() as i128;
            let (pa, qa) = (pb.abs(), qb.abs());
            let one2 = 1i128 << 46;
            assert!(pa != 0 && qa * pa <= one2 && one2 < (qa + 1) * pa, "powi(x,-n) = trunc(1 / powi(x,n))");
            assert!(qa == 0 || (qb < 0) == (pb < 0), "powi(x,-n) has the sign of powi(x,n)");
        }
        (Err(_), Ok(_)) => assert!(false, "powi(x,-n) is Ok only if powi(x,n) is"),
        _ => {}
    }'''),
                       ("c15_powi_sq_i9f23", '''
    // n = 2 for every operand; n = 3 on the operand family (the symbolic 96-bit cube does not finish over the full range)
    let n: i32 = kani::any();
    kani::assume(n == 2 || n == 3);
    let b: i32 = if n == 2 { kani::any() } else { family_i(32) as i32 };
    let x = I9F23::from_bits(b);
    hooks::reset(u64::MAX);
    let r = tf::powi::<I9F23, I9F23>(x, n);
    kani::cover!(r.is_ok() && n == 3 && b < 0, "W:negative cube fits");
    if let Ok(v) = r {
        // exact x^n * 2^23 = b^n / 2^(23(n-1)); tolerance (n+1) ulp * max(1,|x|)^(n-1)
        let bb = b as i128;
        let exact_num = if n == 2 { bb * bb } else { bb * bb * bb };
        let sh = 23 * (n as u32 - 1);
        let lo = exact_num >> sh;          // floor
        let hi = lo + 1;
        let ax = if bb < 0 { -bb } else { bb };
        let m = if ax <= (1 << 23) { 1i128 } else { (ax >> 23) + 1 };
        let scale = if n == 2 { m } else { m * m };
        let tol = (n as i128 + 1) * scale;
        let rb = v.to_bits() as i128;
        assert!(rb >= lo - tol && rb <= hi + tol, "powi within (|n|+1) ulp * max(1,|x|)^(|n|-1) of the exact x^n");
    }''')):
        code = "#[kani::proof]\n#[kani::unwind(6)]\npub fn %s() {%s\n}" % (name, body)
        jobs.append(Job(name, code, "powi/pow conventions and small exponents on I9F23 (all operands): " + name, timeout=1800,
                        inst="powi I9F23", bounds="all 2^32 operands"))
        if name == "c15_powi_sq_i9f23":
            jobs[-1].prio = 9    # 1.5-10 min depending on the load: decided last
    return {
        "feature": "c15",
        "jobs": jobs,
        "functions": ["transcendental.rs: exp, powi, pow (conventions)"],
        "bounds": "I9F23: exp on neighbourhoods of 2^8 operands at the listed and seeded points of [-8, 5.5] (tolerance 2^-20 e^x + 64 ulp); "
                  "powi: conventions 0^n, x^0, x^1, 0^y for every operand; n = 2 for every operand and n = 3 on the operand family against the exact rational power; n in {-1,-2,-3} on the operand family: truncated reciprocal of powi(x,|n|)",
        "outside": ["exp outside the neighbourhoods; pow accuracy for general exponents (two chained 23-step loops: query did not "
                    "finish)", "powi for |n| > 3", "64/128-bit types (memory)"],
        "assumptions": ["enclosure constants from mpmath.iv at 200 bits, outward rounded"],
        "stubs": [],
    }
