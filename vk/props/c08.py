"""C08 – parsing returns the correctly rounded value of the literal, or a precise error."""
import random
from fractions import Fraction
from core import Job
from . import common as c

RADIX_FN = {10: "", 2: "_binary", 8: "_octal", 16: "_hex"}


def shaped(name, s, w, f, radix, sign, ni, nk, unwind=None, point_when_no_frac=False, forms="ovf"):
    """Rust source of a harness parsing [sign] ni digits [. nk digits] with symbolic digits."""
    t, inner = c.ty(s, w, f), c.inner(s, w)
    ln = (1 if sign else 0) + ni + (1 if (nk or point_when_no_frac) else 0) + nk
    unwind = unwind or (ln + 8)
    L = ["#[kani::proof]", "#[kani::unwind(%d)]" % unwind, "pub fn %s() {" % name, "    type L = %s;" % t,
         "    let mut buf = [b'0'; %d];" % ln, "    let mut n: u64 = 0;", "    let mut p = 0usize;"]
    if sign:
        L.append("    buf[p] = b'%s'; p += 1;" % sign)
    def digit():
        L.append("    { let d: u8 = kani::any(); kani::assume(d < %d);" % radix)
        if radix == 16:
            L.append("      let up: bool = kani::any(); buf[p] = if d < 10 { b'0' + d } else if up { b'A' + d - 10 } else { b'a' + d - 10 };")
        else:
            L.append("      buf[p] = b'0' + d;")
        L.append("      p += 1; n = n * %d + d as u64; }" % radix)
    for _ in range(ni):
        digit()
    if nk or point_when_no_frac:
        L.append("    buf[p] = b'.'; p += 1;")
    for _ in range(nk):
        digit()
    L.append("    let s = as_str(&buf[..]);")
    L.append("    let neg = %s;" % ("true" if sign == "-" else "false"))
    L.append("    let want = want_u64::<%s>(neg, n << %d, %du64);" % (inner, f, radix ** nk))
    L.append("    kani::cover!(want.overflow, \"W:overflow reachable\");" if (ni >= 3 or (s == "U" and sign == "-") or f == w) and radix == 10 else "    kani::cover!(true, \"W:reached\");")
    L.append("    kani::cover!(!want.overflow, \"W:literal in range\");")
    L.append("    kani::cover!(n != 0, \"W:non-zero literal\");")
    sfx = RADIX_FN[radix]
    plain = "<L as core::str::FromStr>::from_str(s)" if radix == 10 else "L::from_str%s(s)" % sfx
    if forms == "all":
        L.append("    check_parse::<L>(want, neg, L::overflowing_from_str%s(s), L::wrapping_from_str%s(s), L::saturating_from_str%s(s), %s);" % (sfx, sfx, sfx, plain))
    else:
        L.append("    check_parse_ovf::<L>(want, L::overflowing_from_str%s(s));" % sfx)
    L.append("}")
    return "\n".join(L)


def tie_string(r, f):
    """exact decimal expansion of the tie (2r+1)/2^(f+1): (int digits, frac digits)"""
    num = 2 * r + 1
    den = 1 << (f + 1)
    ip = num // den
    fr = num % den
    digits = []
    for _ in range(f + 1):
        fr *= 10
        digits.append(fr // den)
        fr %= den
    assert fr == 0
    return str(ip), "".join(map(str, digits))


def tie_harness(name, s, w, f, r, neg, win_pos, unwind):
    """literal = tie expansion with three symbolic digits at win_pos..win_pos+3 of the fraction; the
    expected result follows from comparing the window with the tie's own digits."""
    t, inner = c.ty(s, w, f), c.inner(s, w)
    ip, fd = tie_string(r, f)
    assert 0 <= win_pos and win_pos + 3 <= len(fd)
    text = ("-" if neg else "") + ip + "." + fd
    off = (1 if neg else 0) + len(ip) + 1 + win_pos
    tw = [int(ch) for ch in fd[win_pos:win_pos + 3]]
    lo, hi = r, r + 1
    even = lo if lo % 2 == 0 else hi
    def bits(v):
        v = -v if neg else v
        return "(%d%s as %s)" % (v, "i128" if s == "I" else "u128", inner)
    L = ["#[kani::proof]", "#[kani::unwind(%d)]" % unwind, "pub fn %s() {" % name, "    type L = %s;" % t,
         "    let mut buf: [u8; %d] = *b\"%s\";" % (len(text), text),
         "    let w0: u8 = kani::any(); let w1: u8 = kani::any(); let w2: u8 = kani::any();",
         "    kani::assume(w0 < 10 && w1 < 10 && w2 < 10);",
         "    buf[%d] = b'0' + w0; buf[%d] = b'0' + w1; buf[%d] = b'0' + w2;" % (off, off + 1, off + 2),
         "    let wv = (w0 as u32) * 100 + (w1 as u32) * 10 + w2 as u32;",
         "    let tv = %du32;" % (tw[0] * 100 + tw[1] * 10 + tw[2]),
         "    let want: %s = if wv < tv { %s } else if wv > tv { %s } else { %s };" % (inner, bits(lo), bits(hi), bits(even)),
         "    kani::cover!(wv == tv, \"W:exact tie\");", "    kani::cover!(wv + 1 == tv, \"W:a hair below the tie\");",
         "    let s = as_str(&buf[..]);",
         "    match L::overflowing_from_str(s) { Ok((v, o)) => { assert!(!o, \"tie-anchored literal is in range\"); "
         "assert!(v.to_bits() == want, \"literal below / at / above a rounding tie rounds to nearest, ties to even\"); } "
         "Err(_) => assert!(false, \"well-formed literal parses\") }",
         "}"]
    return "\n".join(L), text


def exact_round(text, f):
    """nearest multiple of 2^-f to the decimal literal, ties to even (exact rational arithmetic)"""
    neg = text.startswith("-")
    t = text.lstrip("+-")
    ip, _, fp = t.partition(".")
    num = int((ip or "0") + fp)
    den = 10 ** len(fp)
    x = Fraction(num, den) * (1 << f)
    q = x.numerator // x.denominator
    rem = x - q
    if rem > Fraction(1, 2) or (rem == Fraction(1, 2) and q % 2 == 1):
        q += 1
    return -q if neg else q


def concrete_harness(name, s, w, f, literals, unwind):
    """concrete literals (no symbolic input: the solver's symbolic execution degenerates to running the real parser):
    used for 32..128-bit types, where symbolic digits do not finish"""
    t, inner = c.ty(s, w, f), c.inner(s, w)
    lo, hi = (-(1 << (w - 1)), (1 << (w - 1)) - 1) if s == "I" else (0, (1 << w) - 1)
    L = ["#[kani::proof]", "#[kani::unwind(%d)]" % unwind, "pub fn %s() {" % name, "    type L = %s;" % t]
    for text in literals:
        q = exact_round(text, f)
        ovf = not (lo <= q <= hi)
        wv = q & ((1 << w) - 1)
        if s == "I" and wv >> (w - 1):
            wv -= 1 << w
        lit = ("%s::MIN" % inner) if (s == "I" and wv == lo) else (("%d%s" % (wv, inner)) if wv >= 0 else "(%d%s)" % (wv, inner))
        L.append("    match L::overflowing_from_str(\"%s\") { Ok((v, o)) => assert!(v.to_bits() == %s && o == %s, \"concrete literal parses to the nearest value (ties even) with the exact flag\"), Err(_) => assert!(false, \"well-formed literal parses\") }" % (text, lit, "true" if ovf else "false"))
    L.append("    kani::cover!(true, \"W:reached\");")
    L.append("}")
    return "\n".join(L)


def carry_literals(s, w, f, rnd):
    """fractions that round up into the next integer (odd and even integer part), just below that, and the exact tie"""
    import math
    d = int(math.ceil((f + 1) * math.log10(2))) + 1
    out = []
    intbits = w - f - (1 if s == "I" else 0)
    ks = [1, 2] if intbits >= 2 else ([1] if intbits >= 1 else [0])
    for k in ks:
        out.append("%d.%s" % (k, "9" * d))                 # rounds up to k + 1
        out.append("%d.%s" % (k, "9" * max(1, d - 3)))     # stays below k + 1
        ip, fd = tie_string(((k + 1) << f) - 1, f) if f >= 1 else (str(k), "5")
        out.append("%s.%s" % (ip, fd))                     # exact tie below k + 1
        out.append("%s.%s1" % (ip, fd))                    # a hair above the tie
    if s == "I":
        out.append("-" + out[0])
    return out


def plan(tier, seed, kf_ids):
    rnd = random.Random(seed + 808)
    q = tier == "quick"
    jobs = []
    # ---- tokeniser / totality (one parser call per query)
    for (s, f, ln) in ((("I", 4, 4),) if q else (("I", 4, 5), ("U", 0, 5))):
        for radix in ((10, 16) if q else (10, 2, 8, 16)):
            name = "c08_tokens_%s_len%d_r%d" % (c.tag(s, 8, f), ln, radix)
            code = "#[kani::proof]\n#[kani::unwind(%d)]\npub fn %s() { tokens::<%s, %d, %d>(); }" % (ln + 4, name, c.ty(s, 8, f), ln, radix)
            jobs.append(Job(name, code, "for every ASCII string of length <= %d: the radix-%d overflowing parser into %s is Ok exactly for "
                            "well-formed literals and never panics" % (ln, radix, c.alias(s, 8, f)),
                            timeout=2400, inst=c.alias(s, 8, f), bounds="all 128^<=%d ASCII strings" % ln))
    # ---- exact value, 8-bit types, all digits symbolic
    shapes10 = [(3, 0), (1, 3), (0, 4)] if q else [(1, 0), (2, 0), (3, 0), (1, 1), (1, 2), (1, 3), (0, 3), (0, 4), (1, 4), (0, 5), (1, 5), (2, 4), (3, 3)]
    for s in ("U", "I"):
        fr8 = ([0, 4] if s == "U" else [4, 8]) if q else list(range(9))
        for f in fr8:
            for (ni, nk) in shapes10:
                signs = ["", "-"] if (q and (ni, nk) == (1, 3)) or not q else [""]
                if q and (ni, nk) == (3, 0) and f != 4:
                    continue
                if not q and (ni, nk) == (1, 3):
                    signs.append("+")
                for sg in signs:
                    nm = "c08_dec_%s_%s%d_%d" % (c.tag(s, 8, f), {"": "p", "-": "m", "+": "q"}[sg], ni, nk)
                    allf = (ni, nk) == (3, 0) or ((ni, nk) == (1, 3) and sg == "-")
                    jobs.append(Job(nm, shaped(nm, s, 8, f, 10, sg, ni, nk, forms="all" if allf else "ovf"),
                                    "every decimal literal '%s%s%s' (d = any digit) into %s: %s the nearest representable value, ties "
                                    "to even, with exact overflow handling (oracle: exact u64 division)"
                                    % (sg, "d" * ni, ("." + "d" * nk) if nk else "", c.alias(s, 8, f),
                                       "all four forms return" if allf else "overflowing_from_str returns"),
                                    timeout=1800, inst=c.alias(s, 8, f), bounds="all 10^%d digit strings of this shape" % (ni + nk)))
    # other radices, 8-bit types
    for s in ("U", "I"):
        for f in ([4] if q else [0, 3, 4, 8]):
            for radix, shapes in ((16, [(1, 2)] if q else [(2, 0), (1, 2), (0, 3)]), (2, [(4, 5)] if q else [(4, 5), (0, 9)]),
                                  (8, [(1, 3)] if q else [(3, 0), (1, 3), (0, 4)])):
                for (ni, nk) in shapes:
                    if q and (s, radix) in (("I", 16), ("U", 2), ("I", 8)):
                        continue
                    for sg in (["", "-"] if nk and not q else [""]):
                        nm = "c08_r%d_%s_%s%d_%d" % (radix, c.tag(s, 8, f), {"": "p", "-": "m"}[sg], ni, nk)
                        jobs.append(Job(nm, shaped(nm, s, 8, f, radix, sg, ni, nk),
                                        "every radix-%d literal of shape %s%d.%d digits into %s: nearest, ties to even, exact overflow"
                                        % (radix, sg, ni, nk, c.alias(s, 8, f)), timeout=1800, inst=c.alias(s, 8, f),
                                        bounds="all digit strings of this shape"))
    # 16-bit types: fast path boundary (6 digits) and slow path (7)
    for s in (("U",) if q else ("U", "I")):
        for f in ([8] if q else [0, 8, 16]):
            for (ni, nk) in ([(0, 7)] if q else [(1, 6), (0, 7), (1, 7)]):
                nm = "c08_dec_%s_p%d_%d" % (c.tag(s, 16, f), ni, nk)
                jobs.append(Job(nm, shaped(nm, s, 16, f, 10, "", ni, nk),
                                "every decimal literal with %d+%d digits into %s (slow path from 7 fraction digits): nearest, ties "
                                "to even, exact overflow" % (ni, nk, c.alias(s, 16, f)), timeout=3000, inst=c.alias(s, 16, f),
                                bounds="all 10^%d digit strings of this shape" % (ni + nk)))
    # ---- tie-anchored literals for every width
    for s in ("U", "I"):
        for w in ((8, 16) if q else (8, 16, 32)):
            fl = sorted(set(([w // 2] if (w == 8) == (s == "I") else [w]) if q else [w // 2, w, 2, w - 1, rnd.randrange(2, w), rnd.randrange(2, w)]))
            for f in fl:
                top = (1 << (w - (1 if s == "I" else 0))) - 2
                rs = [rnd.choice([rnd.randrange(0, top), 0, 1, top - 1, (top // 5) * 2 + 1])] if q else [rnd.randrange(0, top), rnd.choice([0, 1, top - 1, (top // 5) * 1, (top // 5) * 2 + 1])]
                if not q:
                    rs += [rnd.randrange(0, top) for _ in range(3)]
                for ri, r in enumerate(rs):
                    ndig = f + 1
                    wins = sorted(set([ndig - 3] + ([max(0, min(ndig - 3, {8: 3, 16: 6, 32: 13, 64: 27, 128: 54}[w] - 1))] if not q else [])))
                    for wp in wins:
                        neg = (s == "I") and rnd.random() < 0.5
                        nm = "c08_tie_%s_r%d_w%d%s" % (c.tag(s, w, f), ri, wp, "m" if neg else "")
                        code, text = tie_harness(nm, s, w, f, r, neg, wp, unwind=len(text_len(r, f, neg)) + 6)
                        jobs.append(Job(nm, code, "literals around the rounding tie between %d and %d ulps of %s: the tie's exact decimal "
                                        "expansion with 3 symbolic digits at fraction position %d (below / equal / above the tie): nearest, ties to even" % (r, r + 1, c.alias(s, w, f), wp),
                                        timeout=1800, inst=c.alias(s, w, f), bounds="1000 literals of %d characters" % len(text)))
    # ---- wide types: concrete literals at the carry into the integer part (128-bit decimal kernel, 64-bit, 32-bit)
    wide = [] if q else \
           [("U", 128, 96), ("I", 128, 126), ("U", 128, 65), ("I", 128, 100), ("U", 128, 128), ("U", 64, 40), ("I", 64, 62), ("U", 64, 20), ("I", 32, 20), ("U", 32, 31)]
    for (s, w, f) in wide:
        lits = carry_literals(s, w, f, rnd)
        nm = "c08_carry_%s" % c.tag(s, w, f)
        jobs.append(Job(nm, concrete_harness(nm, s, w, f, lits, max(len(x) for x in lits) + 8),
                        "concrete literals at the carry into the integer part of %s (k.99..9 rounding up / staying below, the exact tie below k+1 "
                        "and a hair above it, odd and even k): nearest value, ties to even, exact flag; expected values by exact rational "
                        "arithmetic in the driver" % c.alias(s, w, f), timeout=2400, inst=c.alias(s, w, f), bounds="%d concrete literals" % len(lits)))
    # ---- the decimal-fraction kernels, driven directly through the verif_kernels hook
    for (kfn, D, dec, bn) in ((("dec_to_bin_u8", "u16", 3, 8),) if q else (("dec_to_bin_u8", "u16", 3, 8), ("dec_to_bin_u16", "u32", 6, 16))):
        nm = "c08_kernel_%s" % kfn
        jobs.append(Job(nm, "c08_dec_kernel!(%s, %s, %s, %d, %d, div);" % (nm, kfn, D, dec, bn),
                        "%s(val, nbits, Nearest) for EVERY val < 10^%d and every nbits <= %d: Some(RNE(val*2^nbits/10^%d)), or None exactly when that "
                        "rounds up to 2^nbits (oracle: exact division in u128)" % (kfn, dec, bn, dec), timeout=1500, inst=kfn,
                        bounds="all val < 10^%d, all nbits <= %d" % (dec, bn)))
    kern = [("dec_to_bin_u32", "u64", 13, [0, 1, 17, 32] if not q else [17, 32], False), ("dec_to_bin_u64", "u128", 27, [0, 33, 64] if not q else [33, 64], False)]
    if not q:
        kern.append(("dec_to_bin_u32", "u64", 13, [17], True))
    for (kfn, D, dec, nbl, value) in kern:
        for nb in nbl:
            nm = "c08_kernel_%s_n%d%s" % (kfn, nb, "_value" if value else "")
            jobs.append(Job(nm, "c08_dec_kernel!(%s, %s, %s, %d, %d, %s, mulback);" % (nm, kfn, D, dec, nb, "true" if value else "false"),
                            "%s(val, %d, Nearest) for EVERY val < 10^%d: None exactly when the fraction rounds up to 1.0%s"
                            % (kfn, nb, dec, ", otherwise RNE by multiply-back" if value else " (the quotient by the constant 2*5^%d is sliced away: no verdict in 5 min)" % dec),
                            timeout=1500, inst=kfn, bounds="all val < 10^%d, nbits = %d" % (dec, nb)))
    for nb in ([65, 96, 127] if q else [0, 1, 64, 65, 66, 80, 96, 112, 126, 127, 128]):
        nm = "c08_kernel_dec128_none_n%d" % nb
        jobs.append(Job(nm, "#[kani::proof]\npub fn %s() { dec128_none::<%d>(); }" % (nm, nb),
                        "dec_to_bin_u128((hi, lo), %d, Nearest) for EVERY hi, lo < 10^27: None exactly when (hi*10^27+lo)/10^54 rounds up to 1.0 at %d "
                        "fractional bits (threshold comparison in 256-bit arithmetic)" % (nb, nb), timeout=1500, inst="dec_to_bin_u128",
                        bounds="all hi, lo < 10^27; nbits = %d" % nb))
    fk = [("frac_to_bin_u8", ln, 0, 8) for ln in ((4, 5, 6, 8) if q else (3, 4, 5, 6, 7, 8, 10))] + [("frac_to_bin_u16", 7, 9, 9)]
    for (kfn, ln, nlo, bn) in fk:
        nm = "c08_frackernel_%s_len%d_n%d_%d" % (kfn, ln, nlo, bn)
        jobs.append(Job(nm, "c08_frac_kernel!(%s, %s, %d, %d, %d, %d);" % (nm, kfn, ln, nlo, bn, ln + 4),
                        "%s(digits, nbits) for EVERY string of %d decimal digits (last one non-zero) and EVERY nbits in %d..=%d: RNE(0.digits * 2^nbits), None "
                        "exactly when that is 2^nbits" % (kfn, ln, nlo, bn), timeout=600, inst=kfn, bounds="all 9*10^%d strings x %d bit counts" % (ln - 1, bn - nlo + 1)))
    for j in jobs:
        if "kernel" in j.name:
            j.prio = 1
        elif "_m1_3" in j.name or "_p3_0" in j.name:
            j.prio = 7       # all four forms: 2-4 times the cost of the other shapes
    return {
        "feature": "c08",
        "jobs": jobs,
        "functions": ["[through the verif_kernels hook] from_str.rs: DecToBin::dec_to_bin for u8, u16 (value and None, all val, all nbits), u32, u64, u128 "
                      "(the rounds-up-to-one decision, all val); dec_str_frac_to_bin::<u8> (all digit strings of 4..8 (10) digits, all nbits), ::<u16> (7 digits, nbits 9)",
                      "from_str.rs: parse_bounds, from_str_{i,u}{8,16,32,64,128}, get_int*, get_frac*, dec_str_int_to_bin, "
                      "dec_str_frac_to_bin (fast path dec_to_bin and digit-by-digit slow path), bin/oct/hex_str_*_to_bin",
                      "macros_from_to.rs: from_str*, saturating_/wrapping_/overflowing_from_str* for all four radices"],
        "bounds": "8-bit types: every ASCII string of length <= 5 (quick) / 6 (well-formedness, all radices); every digit string of "
                  "the listed shapes (up to 3 integer + 5 fraction decimal digits; hex/octal/binary shapes) with exact value oracle; "
                  "16-bit: 6- and 7-fraction-digit decimals; all widths: tie-anchored literals (exact expansion of a rounding tie with "
                  "a 3-digit symbolic window, its proper prefix) at boundary and seeded values",
        "outside": ["strings longer than the shapes listed; long decimals of 32/64/128-bit types other than the concrete carry/tie "
                    "literals (symbolic digits do not finish on 128-bit words)", "non-ASCII input", "the error kind (only Ok/Err and, for from_str, Err exactly on overflow)"],
        "assumptions": ["strings are built with from_utf8_unchecked from bytes < 128"],
        "stubs": [],
    }


def text_len(r, f, neg):
    ip, fd = tie_string(r, f)
    return ("-" if neg else "") + ip + "." + fd
