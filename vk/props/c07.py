"""C07 – remainders and Euclidean division."""
import random
from core import Job
from . import common as c

WIDE = {8: "i32", 16: "i64"}


def plan(tier, seed, kf_ids):
    rnd = random.Random(seed + 707)
    q = tier == "quick"
    jobs = []
    for s in ("I", "U"):
        for w in (8, 16):
            if w == 8:
                fr = c.all_fracs(8)
            else:
                fr = [8] if q else [0, 8, 16]
            for f in fr:
                t, i, al, tg = c.ty(s, w, f), c.inner(s, w), c.alias(s, w, f), c.tag(s, w, f)
                for body, extra, desc in (
                    ("rem", "", "%, checked_rem, rem_euclid, checked_rem_euclid equal the exact remainders"),
                    ("diveuc", ", %d" % f, "div_euclid and its checked/saturating/wrapping/overflowing forms equal the exact "
                     "Euclidean quotient with exact overflow policy"),
                    ("remint", ", %d" % f, "% n, checked_rem_int, rem_euclid_int and its checked/wrapping/overflowing forms"),
                    ("diveucint", ", %d" % f, "div_euclid_int and its checked/wrapping/overflowing forms"),
                ):
                    if w == 16 and body in ("rem", "diveuc"):
                        continue  # two 32-bit dividers of the same operands: the back end does not finish
                    name = "c07_%s_%s" % (body, tg)
                    code = "c07_%s!(%s, %s, %s, %s%s);" % (body, name, t, i, WIDE[w], extra)
                    jobs.append(Job(name, code, "for all a and all non-zero divisors of %s: %s (oracle: %s arithmetic)" % (al, desc, WIDE[w]),
                                    timeout=900 if w == 8 else 3000, inst=al, bounds="all 2^%d operand pairs" % (2 * w)))
    # widths 32 and 64: every dividend against CONSTANT divisors whose dividers the back end can relate (+-1, powers of two, 3*2^k,
    # the minimum): the special cases of the remainder code (-1, minimum, divisors that do not fit the type's integer part)
    for s in ("I", "U"):
        for w, wide in ((32, "i128"), (64, "i128")):
            base_f = [w // 2] if w == 32 else [0, w // 2]
            for f in [0, w // 2, w]:
                extra = f not in base_f      # quick tier: decided last, as far as the run budget allows
                t, i, al, tg = c.ty(s, w, f), c.inner(s, w), c.alias(s, w, f), c.tag(s, w, f)
                mn = "<%s>::MIN" % i if s == "I" else "(1 << %d)" % (w - 1)
                fixed_divs = [("ulp", "1"), ("one", "1 << %d" % f if f < w - (1 if s == "I" else 0) else "1 << %d" % (w - 2)), ("min", mn), ("big", "1 << %d" % (w - 2))]
                int_divs = [("one", "1"), ("two", "2"), ("three", "3"), ("min", mn), ("nofit", "1 << %d" % max(0, min(w - 2, w - f - (1 if s == "I" else 0)))),
                            ("big", "1 << %d" % (w - 2))]
                if s == "I":
                    fixed_divs += [("mulp", "-1"), ("mone", "-(1 << %d)" % (f if f < w - 1 else w - 2))]
                    int_divs += [("mone", "-1"), ("mthree", "-3")]
                for body, extra, divs in (("rem", "", fixed_divs), ("diveuc", ", %d" % f, fixed_divs), ("remint", ", %d" % f, int_divs),
                                          ("diveucint", ", %d" % f, int_divs)):
                    if w == 64 and body == "diveuc":
                        continue   # (a << f) / b needs more than the 128 bits of the oracle's word
                    if w == 64 and body != "rem" and f > 32:
                        continue   # n << f must fit the oracle's word
                    for dn, dexpr in divs:
                        if q and w == 64 and body == "diveucint" and f == 0 and dn in ("three", "mthree"):
                            continue   # 200-300 s each: thorough only
                        name = "c07_%s_%s_by_%s" % (body, tg, dn)
                        code = "c07_%s!(%s, %s, %s, %s%s; %s);" % (body, name, t, i, wide, extra, dexpr)
                        jobs.append(Job(name, code, "for every dividend of %s and the constant divisor %s: %s forms against %s arithmetic" % (al, dexpr, body, wide),
                                        timeout=900, inst=al, bounds="all 2^%d dividends, one divisor" % w))
                        if extra and q:
                            jobs[-1].prio = 8
    for k in kf_ids:
        jobs.append(Job("kfw_" + k, "", "witness of known finding %s (concrete operands)" % k, timeout=300, kf=k,
                        inst="witness", bounds="concrete operands"))
    c.interleave(jobs)
    return {
        "feature": "c07",
        "jobs": jobs,
        "functions": ["macros_no_frac.rs: checked_rem, checked_rem_euclid, rem_euclid", "arith.rs: Rem for fixed and integer divisors",
                      "macros_frac.rs: {checked,saturating,wrapping,overflowing}_div_euclid, div_euclid, checked_rem_int, "
                      "{checked,wrapping,overflowing}_{div,rem}_euclid_int, div_euclid_int, rem_euclid_int"],
        "bounds": "widths 32/64: all dividends against constant divisors (+-1, +-1.0, powers of two, 3, minimum, divisors that do not fit the integer part); all operand pairs; width 8: every operation, every fractional count 0..=8, both signs; width 16: the "
                  "integer-divisor forms at fractional count 8 (quick) / {0,8,16} (thorough)",
        "outside": ["widths 32, 64 with symbolic divisors and width 128: the SAT back end cannot relate the library's divider to a second "
                    "(oracle) divider at these widths (probes in DESIGN.md); the code is one macro body for all widths"],
        "assumptions": ["divisor non-zero (zero divisors: C02 divzero obligations)",
                        "plain div_euclid / rem_euclid_int only called when the result is representable"],
        "stubs": [],
    }
