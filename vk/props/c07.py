"""C07 – remainders and Euclidean division."""
import random
from core import Job
from . import common as c

WIDE = {8: "i32", 16: "i64"}


def plan(tier, seed, kf_ids):
    rnd = random.Random(seed + 707)
    q = tier == "quick"
    jobs = []
    for s in ("I", "U"):
        for w in (8, 16):
            if w == 8:
                fr = c.all_fracs(8)
            else:
                fr = [8] if q else [0, 8, 16]
            for f in fr:
                t, i, al, tg = c.ty(s, w, f), c.inner(s, w), c.alias(s, w, f), c.tag(s, w, f)
                for body, extra, desc in (
                    ("rem", "", "%, checked_rem, rem_euclid, checked_rem_euclid equal the exact remainders"),
                    ("diveuc", ", %d" % f, "div_euclid and its checked/saturating/wrapping/overflowing forms equal the exact "
                     "Euclidean quotient with exact overflow policy"),
                    ("remint", ", %d" % f, "% n, checked_rem_int, rem_euclid_int and its checked/wrapping/overflowing forms"),
                    ("diveucint", ", %d" % f, "div_euclid_int and its checked/wrapping/overflowing forms"),
                ):
                    if w == 16 and body in ("rem", "diveuc"):
                        continue  # two 32-bit dividers of the same operands: the back end does not finish
                    name = "c07_%s_%s" % (body, tg)
                    code = "c07_%s!(%s, %s, %s, %s%s);" % (body, name, t, i, WIDE[w], extra)
                    jobs.append(Job(name, code, "for all a and all non-zero divisors of %s: %s (oracle: %s arithmetic)" % (al, desc, WIDE[w]),
                                    timeout=900 if w == 8 else 3000, inst=al, bounds="all 2^%d operand pairs" % (2 * w)))
    for k in kf_ids:
        jobs.append(Job("kfw_" + k, "", "witness of known finding %s (concrete operands)" % k, timeout=300, kf=k,
                        inst="witness", bounds="concrete operands"))
    return {
        "feature": "c07",
        "jobs": jobs,
        "functions": ["macros_no_frac.rs: checked_rem, checked_rem_euclid, rem_euclid", "arith.rs: Rem for fixed and integer divisors",
                      "macros_frac.rs: {checked,saturating,wrapping,overflowing}_div_euclid, div_euclid, checked_rem_int, "
                      "{checked,wrapping,overflowing}_{div,rem}_euclid_int, div_euclid_int, rem_euclid_int"],
        "bounds": "all operand pairs; width 8: every operation, every fractional count 0..=8, both signs; width 16: the "
                  "integer-divisor forms at fractional count 8 (quick) / {0,8,16} (thorough)",
        "outside": ["widths 32, 64, 128: the SAT back end cannot relate the library's divider to a second (oracle) divider at "
                    "these widths (probes in DESIGN.md); the code is one macro body for all widths"],
        "assumptions": ["divisor non-zero (zero divisors: C02 divzero obligations)",
                        "plain div_euclid / rem_euclid_int only called when the result is representable"],
        "stubs": [],
    }
