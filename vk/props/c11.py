"""C11 – results do not depend on the build profile.

Decomposition (DESIGN.md 4 C11): (1) a source inventory regenerated on every run shows that the crate has no code
conditional on debug_assertions and no unsafe, so the only profile-dependent behaviour is rustc's overflow / shift /
neg checks and the debug_assert! sites; (2) Kani compiles with both switches ON: for the total entry points
(checked_/saturating_/wrapping_/overflowing_/Result-returning functions, comparisons, conversions, rounding) the
harnesses below show over all operands that no such check can fire - an execution in which no check fires is
instruction for instruction the execution of the non-checking profile, hence returns the same value; (3) for the
operator forms the same harnesses call them only where the documentation does not reserve a panic."""
import os
import random
import re
from core import Job, REPO
from . import common as c
from . import arith as A
from . import trans as T


def inventory():
    inv = {"cfg_debug_assertions": [], "unsafe": [], "debug_assert": 0, "files": 0}
    src = os.path.join(REPO, "src")
    for root, _, files in os.walk(src):
        for fn in files:
            if not fn.endswith(".rs"):
                continue
            inv["files"] += 1
            in_tests = False
            for i, line in enumerate(open(os.path.join(root, fn), errors="replace"), 1):
                code = line.split("//")[0]
                if re.search(r"#\[cfg\(test\)\]", code):
                    in_tests = True   # test modules sit at the end of each file in this crate
                if in_tests:
                    continue
                if re.search(r"cfg!?\s*\(\s*(not\s*\()?\s*debug_assertions|cfg_attr\s*\(\s*debug_assertions|overflow_checks", code):
                    inv["cfg_debug_assertions"].append("%s:%d" % (os.path.relpath(os.path.join(root, fn), REPO), i))
                if re.search(r"\bunsafe\b", code):
                    inv["unsafe"].append("%s:%d" % (os.path.relpath(os.path.join(root, fn), REPO), i))
                inv["debug_assert"] += len(re.findall(r"\bdebug_assert(_eq|_ne)?!", code))
    return inv


def plan(tier, seed, kf_ids):
    rnd = random.Random(seed + 1111)
    q = tier == "quick"
    jobs = []
    files = {"gen_c04.rs": [], "gen_c05.rs": [], "gen_c06.rs": [], "gen_c07.rs": [], "gen_c18.rs": [], "gen_c12.rs": []}
    inv = inventory()

    def ext(fname, name, code, desc, inst, timeout=1200, bounds="all operands", kf=None):
        files[fname].append(code)
        j = Job(name, "", desc + " - no overflow / shift / debug_assert check of the checking profile can fire",
                timeout=timeout, inst=inst, bounds=bounds, kf=kf)
        j.genfile = fname
        jobs.append(j)

    for s, w in c.FAMILIES:
        f = w // 2
        jobs.append(A.lin("c11", s, w, f))
        if s == "I":
            jobs.append(A.abs_("c11", s, w, f))
        if w <= 32:
            jobs.append(A.mul("c11", s, w, f, 0))
            jobs.append(A.mul("c11", s, w, rnd.choice([0, w]), 2))
            jobs.append(A.mulint("c11", s, w, f, 0))
            if w < 32 or not q:
                jobs.append(A.divint("c11", s, w, f, 2, timeout=2400))
        if w == 8:
            for ff in (0, 4, 8) if q else range(9):
                jobs.append(A.div8("c11", s, w, ff))
        if w == 16:
            jobs.append(A.div("c11", s, w, f, 2))
        if w == 128 and s == "U":
            jobs.append(A.mul128("c11", s, 64, 0, 1, timeout=2400))
        if w == 128 and s == "I" and not q:
            jobs.append(A.mul128("c11", s, 64, 0, 1, timeout=3600))
        # rounding
        for ff in sorted(set([f, rnd.choice([0, 1, w - 1, w])])):
            t, al, tg = c.ty(s, w, ff), c.alias(s, w, ff), c.tag(s, w, ff)
            n = "c11_round_" + tg
            ext("gen_c06.rs", n, "#[kani::proof]\npub fn %s() { round_all::<%s>(); }" % (n, t),
                "all rounding forms of %s for every value" % al, al)
        # conversions: to a narrower / wider / other-signed layout, to and from integers
        for (s2, w2) in rnd.sample(c.FAMILIES, 2 if q else 4):
            f2 = rnd.choice([0, w2 // 2, w2])
            n = "c11_conv_%s_%s" % (c.tag(s, w, f), c.tag(s2, w2, f2))
            ext("gen_c04.rs", n, "#[kani::proof]\npub fn %s() { ff::<%s, %s>(); }" % (n, c.ty(s, w, f), c.ty(s2, w2, f2)),
                "all conversion forms %s -> %s for every value" % (c.alias(s, w, f), c.alias(s2, w2, f2)),
                "%s->%s" % (c.alias(s, w, f), c.alias(s2, w2, f2)))
        it = rnd.choice(["i8", "u16", "i64", "u128", "isize"])
        n = "c11_toint_%s_%s" % (c.tag(s, w, f), it)
        ext("gen_c04.rs", n, "#[kani::proof]\npub fn %s() { fi::<%s, %s>(); }" % (n, c.ty(s, w, f), it),
            "to_num::<%s> forms of %s for every value" % (it, c.alias(s, w, f)), c.alias(s, w, f))
        n = "c11_fromint_%s_%s" % (it, c.tag(s, w, f))
        ext("gen_c04.rs", n, "#[kani::proof]\npub fn %s() { ifx::<%s, %s>(); }" % (n, it, c.ty(s, w, f)),
            "from_num(%s) forms into %s for every integer" % (it, c.alias(s, w, f)), c.alias(s, w, f))
        if w in (8, 32, 128) or not q:
            for form, nm in ((2, "che"), (3, "sat")):
                n = "c11_fromf32_%s_%s" % (c.tag(s, w, f), nm)
                ext("gen_c05.rs", n, "#[kani::proof]\npub fn %s() { from_float::<%s, f32, %d>(); }" % (n, c.ty(s, w, f), form),
                    "%s from_num(f32) into %s for every finite float" % (nm, c.alias(s, w, f)), c.alias(s, w, f), timeout=1800)
        # Wrapping
        n = "c11_wrapping_" + c.tag(s, w, f)
        ext("gen_c18.rs", n, "#[kani::proof]\n#[kani::unwind(6)]\npub fn %s() { lin::<%s>(); }" % (n, c.ty(s, w, f)),
            "Wrapping<%s> linear/bit/shift/rounding operators for all operands" % c.alias(s, w, f), c.alias(s, w, f))
    # remainders / Euclidean division, 8-bit (every operand pair): includes divisors equal to the minimum
    for s in ("I", "U"):
        for f in ((0, 4, 7, 8) if q else range(9)):
            t, i, al, tg = c.ty(s, 8, f), c.inner(s, 8), c.alias(s, 8, f), c.tag(s, 8, f)
            for body, extra in (("rem", ""), ("diveuc", ", %d" % f), ("remint", ", %d" % f), ("diveucint", ", %d" % f)):
                n = "c11_%s_%s" % (body, tg)
                ext("gen_c07.rs", n, "c07_%s!(%s, %s, %s, i32%s);" % (body, n, t, i, extra),
                    "%s forms of %s for all operand pairs" % (body, al), al)
    # math functions (Result-returning): full operand range on the 32-bit type
    a = "I9F23"
    j = T.total1("c11", "exp", a, a, T.FULL, "all", 26, T.BIG, bounds="all 2^32 operands")
    files["gen_c12.rs"].append(j.code); j.code = ""; j.genfile = "gen_c12.rs"; jobs.append(j)
    j = T.trig("c11", "sin", a, T.FULL, "all", 30, T.BIG, 200)
    files["gen_c12.rs"].append(j.code); j.code = ""; j.genfile = "gen_c12.rs"; jobs.append(j)
    if not q:
        j = T.total1("c11", "log2", a, a, T.FULL, "all", 36, T.BIG, timeout=2400, bounds="all 2^32 operands")
        files["gen_c12.rs"].append(j.code); j.code = ""; j.genfile = "gen_c12.rs"; jobs.append(j)
    for k in kf_ids:
        jobs.append(Job("kfw_" + k, "", "witness of known finding %s (concrete operands)" % k, timeout=300, kf=k,
                        inst="witness", bounds="concrete operands"))
    notes = []
    if inv["cfg_debug_assertions"] or inv["unsafe"]:
        notes.append("source inventory found profile-conditional or unsafe code that the argument does not cover: %s %s"
                     % (inv["cfg_debug_assertions"], inv["unsafe"]))
    c.interleave(jobs)
    return {
        "engine_m": ["mul128", "widen"],
        "feature": "c11",
        "features": ["c04", "c05", "c06", "c07", "c18", "c12", "kf_c07_trunc_ovf", "kf_c07_wrapped"],
        "jobs": jobs,
        "extra_files": {k: "// generated by vk (C11)\n" + "\n".join(v) + "\n" for k, v in files.items()},
        "functions": ["the total entry points of arith.rs, macros_frac.rs, macros_no_frac.rs, macros_round.rs, traits.rs, "
                      "int_helper.rs, float_helper.rs, wrapping.rs and exp/sin of transcendental.rs, through the harness bodies of "
                      "C02/C04/C05/C06/C07/C12/C18"],
        "bounds": "all operands of the instantiated aliases (one alias per family at W/2 fractional bits plus seeded layouts); "
                  "source inventory: %d files, %d debug_assert! sites, %d debug_assertions-conditional lines, %d unsafe lines"
                  % (inv["files"], inv["debug_assert"], len(inv["cfg_debug_assertions"]), len(inv["unsafe"])),
        "outside": ["the non-checking profile is not compiled by the solver front end: equality of values rests on the argument "
                    "'no check can fire => identical execution', plus the source inventory", "entry points and aliases not "
                    "instantiated; parsing and formatting (their harnesses, C08/C09, run with the same checks on)",
                    "64/128-bit division and 128-bit multiplication outside the operand families"],
        "assumptions": ["the value regions of the three open div_euclid findings (C07) are excluded so that the C07 bodies can be "
                        "reused; their panic behaviour (c07_plain_one) is reported as a known finding here"] + notes,
        "stubs": [],
        "inconclusive_notes": notes,
    }
