"""C14 – log2 / ln accuracy."""
import random
from . import acc
from . import trans as T


def plan(tier, seed, kf_ids):
    rnd = random.Random(seed + 1414)
    q = tier == "quick"
    jobs = []
    a = "I9F23"
    F = 23
    one = 1 << F
    centres = [one - 128, 2 * one - 128, (1 << 31) - 256, (one >> 1) - 128, (1 << (F - 7)) - 128, (1 << (F - 8)) - 128, 1024 - 128, 3 * one, 100 * one]
    centres += [(1 << p) - 128 for p in ((20, 29) if q else range(17, 31))]
    centres += [rnd.randrange(1 << 16, 1 << 31) for _ in range(2 if q else 10)] + [rnd.randrange(1, 1 << 15)]
    for c in sorted(set(centres)):
        must_ok = c >= (1 << (F - 8))
        jobs.append(acc.acc1("c14", "log2", a, a, c, 8, 8, 0, must_ok, 40))
        if not q or c in (one - 128, 3 * one, (1 << 31) - 256) or c == centres[-1]:
            jobs.append(acc.acc1("c14", "ln", a, a, c, 8, 8, 23, must_ok, 40))
    # wider destination than source (log2_inner must work at the DESTINATION's resolution): tiny neighbourhoods, because 32
    # dependent 64-bit squarings with symbolic operands exhaust memory beyond a few symbolic bits
    wide = [3 * one, one + 12345 - 128] + ([] if q else [one - 128, 2 * one - 128, 200 * one, rnd.randrange(one, 1 << 31), rnd.randrange(1 << 15, one)])
    for c in wide:
        jobs.append(acc.acc1("c14", "log2", a, "I32F32", c, 8, 8, 0, True, 40, timeout=1500, tag="to_i32f32_c%d" % c))
    jobs.append(acc.acc1("c14", "ln", a, "I32F32", 3 * one, 8, 8, 23, True, 40, timeout=1500, tag="to_i32f32_c%d" % (3 * one)))
    # single operands on other type pairs (constants folded by the front end: witnesses, not quantified obligations)
    for (fun, sa, da, x, rel) in (("log2", "I9F23", "I32F32", 3.0, 0), ("log2", "I9F23", "I32F32", 1.01, 0), ("log2", "I9F23", "I32F32", 255.99, 0),
                                  ("log2", "I9F23", "I32F32", 0.3, 0), ("ln", "I9F23", "I32F32", 1.01, 23), ("ln", "I9F23", "I32F32", 100.0, 23),
                                  ("log2", "I32F32", "I32F32", 3.33333, 0), ("log2", "I32F32", "I32F32", 1e-5, 0), ("log2", "I16F48", "I16F48", 3.0, 0),
                                  ("log2", "I32F32", "I64F64", 3.0, 0), ("log2", "I64F64", "I64F64", 10.0, 0), ("ln", "I32F32", "I64F64", 0.11111, 23)):
        fsrc = T.TYPES[sa][2]
        jobs.append(acc.acc1("c14", fun, sa, da, int(x * (1 << fsrc)), 0, 8, rel, True, 140, timeout=600,
                             tag="w_%s_%s_c%d" % (sa.lower(), da.lower(), int(x * (1 << fsrc)))))
        jobs[-1].prio = 1
    for j in jobs:
        if "_to_i32f32_" in j.name:
            j.prio = 9   # 4-5 min each: decided last, when the run budget allows
    return {
        "feature": "c14",
        "jobs": jobs,
        "functions": ["transcendental.rs: log2, log2_inner, rs, ln"],
        "bounds": "I9F23 -> I32F32 (destination finer than the source): neighbourhoods of 2^8 operands at 3.0 and 1.0015 (quick) + 5 more (thorough), "
                  "7 GB / 250 s each; I9F23: neighbourhoods of 2^8 consecutive operands straddling 1, 2, 1/2, the powers of two, the Err/Ok threshold, "
                  "the maximum, and seeded operands; tolerance 8 ulp (ln: + 2^-23 |ln x|)",
        "outside": ["operands outside the neighbourhoods", "64/128-bit types (memory)", "exactness of log2 at powers of two and the sign "
                    "around 1 are implied by the 8-ulp enclosure only up to the tolerance"],
        "assumptions": ["enclosure constants from mpmath.iv at 200 bits, outward rounded; linear in the operand by the mean value theorem"],
        "stubs": [],
    }
