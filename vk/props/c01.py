"""C01 – products and quotients are the exactly rounded true results at every width."""
import random
from . import common as c
from . import arith as A


def plan(tier, seed, kf_ids):
    rnd = random.Random(seed + 101)
    q = tier == "quick"
    jobs = []
    for s, w in c.FAMILIES:
        if w == 128:
            continue
        # multiplication: overflowing (flag + wrapped), checked and operator forms
        if w <= 32:
            fr = ([0, w // 2, w] + c.seeded_fracs(w, seed, 1)) if q else (c.boundary_fracs7(w) + c.seeded_fracs(w, seed, 6))
        else:
            fr = [w // 2] if q else [0, 1, w // 2, w - 1, w]
        for f in sorted(set(fr)):
            forms = (0, 2, 4) if w <= 32 else ((2,) if q else (0, 2, 4))
            for form in forms:
                jobs.append(A.mul("c01", s, w, f, form, timeout=3000 if w == 64 else 900))
        # division
        if w == 8:
            for f in (c.all_fracs(8) if not q else [0, 1, 4, 7, 8]):
                jobs.append(A.div8("c01", s, w, f))
        elif w == 16:
            fr = [8, rnd.choice([0, 16])] if q else c.boundary_fracs7(16) + c.seeded_fracs(16, seed, 3)
            for f in sorted(set(fr)):
                for form in ((0,) if q else (0, 2, 4)):
                    jobs.append(A.div("c01", s, w, f, form))
        elif w == 32:
            # signed 32-bit division needs 6-25 min per query: thorough only
            fr = ([16] if s == "U" else []) if q else [0, 1, 16, 31, 32]
            for f in fr:
                for form in ((0,) if q else (0, 2, 4)):
                    jobs.append(A.div("c01", s, w, f, form, timeout=1200 if q else 5400))
    # 64- and 128-bit division: every dividend against constant divisors (the general divider is out of reach of SAT)
    for s, w in c.FAMILIES:
        if w < 64:
            continue
        for f in ([0, w // 2, w] if q else [0, 1, w // 2, w - 1, w]):
            ks = [(0, False), (w // 2 - 1, False)] + ([(0, True), (w - 2, True)] if s == "I" else [(w - 1, False)])
            for (k, neg) in ks:
                jobs.append(A.div_pow2("c01", s, w, f, k, neg, timeout=1200))
        # measured: 3 and 10: 1-25 s; 2^32+3 (64 bit): 20-30 s; 2^64+3 (128 bit, two-limb divisor = the main loop of
        # Knuth D in wide_div.rs): 115-145 s; divisors near 2^(W-1) or with many set bits: no verdict in 20 min
        small = [3, 10]
        two_limb = (1 << (w // 2)) + 3
        for f in ([w // 2] if q else [1, w // 2, w - 1]):
            for neg in ((False, True) if s == "I" else (False,)):
                for d in small:
                    jobs.append(A.div_const("c01", s, w, f, d, neg, 0, timeout=900))
                if not q or (not neg):
                    jobs.append(A.div_const("c01", s, w, f, two_limb, neg, 0 if q else 2, timeout=1800))
    # 128-bit kernels on operand families
    for s in ("U", "I"):
        fr = [1, 64, 127, 128] if q else [1, 2, 63, 64, 65, 126, 127, 128]
        for f in fr:
            fams = [(0, 0), (0, 1)] if s == "U" else ([] if q else [(0, 1)])
            for fa, fb in fams:
                jobs.append(A.mul128("c01", s, f, fa, fb, timeout=3000))
    # 64/128-bit multiplication: every a against constant power-of-two factors (the full 128-bit product is Engine M's / the families')
    for s, w in c.FAMILIES:
        if w < 64:
            continue
        for f in ([1, w // 2, w - 1, w] if q else [0, 1, 2, w // 2, w - 2, w - 1, w]):
            # (a negative factor other than the minimum has a dense bit pattern: -1 ulp did not finish in 9 min)
            for (k, neg) in [(0, False), (w // 2, False)] + ([(w - 2, False), (w - 1, True)] if s == "I" else [(w - 1, False)]):
                jobs.append(A.mul_pow2("c01", s, w, f, k, neg, timeout=900))
    c.interleave(jobs)
    return {
        "engine_m": ["mul128", "widen"],
        "feature": "c01",
        "jobs": jobs,
        "functions": ["[Engine M, from the MIR dump] arith.rs: mul_overflow and div_overflow of all ten integer types with every helper "
                      "they call (hi_lo, carrying_add, shift_lo_up, combine_lo_then_shl), EVERY fractional-bit count, ALL operands; "
                      "the primitive 2W-bit multiplication / division and wide_div.rs::div_rem_from are abstracted (trusted)",
                      "[Kani, through the public API] arith.rs: MulDivOverflow::{mul_overflow,div_overflow} for u8..u64,i8..i64 (mul_div_widen) and "
                      "u128/i128 (mul_div_fallback: FallbackHelper::{hi_lo,carrying_add,shift_lo_up,combine_lo_then_shl})",
                      "macros_frac.rs: overflowing_mul, checked_mul, overflowing_div, checked_div; operators * and /"],
        "bounds": "mul: all operand pairs, widths 8..32 at fractional counts {0,1,2,W/2,W-2,W-1,W}+seeded, width 64 at W/2 "
                  "(quick) or {0,1,32,63,64} (thorough); div: width 8 every fractional count incl. wrapped value on overflow, "
                  "width 16 boundary counts, width 32: unsigned at 16 (quick) / both signs at {0,1,16,31,32} (thorough); 128-bit mul: operand "
                  "families of 2^16 x 2^16 values (8 symbolic bits at the top/bottom of each 64-bit limb); 64/128-bit div: every dividend x constant "
                  "divisors {+-1, +-2^k, 3, 10, 2^(W/2)+3} ulp at fractional counts {0, W/2, W} (quick)",
        "outside": ["64/128-bit division with a SYMBOLIC divisor (Knuth D of wide_div.rs is abstracted in Engine M; through Kani every dividend is "
                    "decided against constant divisors only: +-1, +-2^k, 3, 10, 2^(W/2)+3)",
                    "the primitive integer multiply/divide instructions (trusted)",
                    "wrapped value of an overflowing division for widths >= 16", "fractional counts not instantiated"],
        "assumptions": ["divisor non-zero", "plain operators only called when the result is representable"],
        "stubs": [],
    }
