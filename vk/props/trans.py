"""Shared builders for the transcendental-function harnesses (hk/src/tr.rs)."""
from core import Job

# (alias, inner int, width, frac, signed)
TYPES = {
    "I9F23": ("i32", 32, 23, True), "I32F32": ("i64", 64, 32, True), "I16F48": ("i64", 64, 48, True),
    "I64F64": ("i128", 128, 64, True), "I40F88": ("i128", 128, 88, True), "I96F32": ("i128", 128, 32, True),
    "I20F12": ("i32", 32, 12, True),
    "U9F23": ("u32", 32, 23, False), "U32F32": ("u64", 64, 32, False), "U64F64": ("u128", 128, 64, False),
    "U96F32": ("u128", 128, 32, False),
}

FULL = "kani::any()"
BIG = "u64::MAX"


def nbhd(centre, k, inner):
    """centre + t, 0 <= t < 2^k"""
    return "{ let t: u32 = kani::any(); kani::assume(t < %d); (%d as %s).wrapping_add(t as %s) }" % (1 << k, centre, inner, inner)


def binades(alias, signed_negative=False):
    inner, w, f, sg = TYPES[alias]
    top = w - 1 if sg else w
    e = "binades_u(%d) as %s" % (top, inner)
    return e


def budget(alias):
    """tight solver-side budget (see hk/src/tr.rs c17_budget)"""
    return TYPES[alias][1] + 32


def budget_expr(alias):
    return "c17_budget(%d)" % TYPES[alias][1]


def family(alias):
    inner, w, f, sg = TYPES[alias]
    return ("family_i(%d) as %s" if sg else "family_u(%d) as %s") % (w, inner)


def total1(prefix, fun, s_alias, d_alias, operand, opname, unwind, budget_expr, timeout=1800, bounds=None):
    inner = TYPES[s_alias][0]
    signed = TYPES[s_alias][3]
    if fun == "sqrt":
        dom = "|b: %s| b < 0" % inner if signed else "|_b: %s| false" % inner
    elif fun in ("log2", "ln"):
        dom = "|b: %s| b <= 0" % inner
    else:
        dom = "|_b: %s| false" % inner
    name = "%s_%s_%s_%s_%s" % (prefix, fun, s_alias.lower(), d_alias.lower(), opname)
    code = "tr_total1!(%s, %d, %s, %s, %s, %s, %s, %s, %s);" % (name, unwind, s_alias, d_alias, inner, operand, budget_expr, fun, dom)
    return Job(name, code, "%s::<%s,%s> over operands '%s': returns Ok or Err without any panic / failed check "
               "(iteration budget %s); undefined requests yield Err" % (fun, s_alias, d_alias, opname, budget_expr),
               timeout=timeout, inst="%s %s->%s" % (fun, s_alias, d_alias), bounds=bounds or opname)


def trig(prefix, fun, alias, operand, opname, unwind, budget_expr, limit, timeout=1800):
    inner = TYPES[alias][0]
    name = "%s_%s_%s_%s" % (prefix, fun, alias.lower(), opname)
    code = "tr_total_trig!(%s, %d, %s, %s, %s, %s, %s, %d);" % (name, unwind, alias, inner, operand, budget_expr, fun, limit)
    return Job(name, code, "%s::<%s> over operands '%s'%s: returns without any panic / failed check (iteration budget %s)"
               % (fun, alias, opname, (" with |x| <= %d" % limit) if limit else "", budget_expr),
               timeout=timeout, inst="%s %s" % (fun, alias), bounds=opname)
