"""C17 – math functions do a bounded amount of work (iteration counter hook with a budget)."""
from . import c12


def plan(tier, seed, kf_ids):
    p = c12.plan(tier, seed, kf_ids, prefix="c17", budget=True)
    from core import Job
    from . import trans as T
    a = "I9F23"
    name = "c17_pow_i9f23_family"
    p["jobs"].append(Job(name, "tr_total_pow!(%s, %d, I9F23, I9F23, i32, %s, %s, %s);" % (name, T.budget(a) + 2, T.family(a), T.family(a), T.budget_expr(a)),
                         "pow::<I9F23,I9F23>(x, y) for x and y in the operand family (every binade +-255 ulps, max - t, min + t): within the "
                         "iteration budget", timeout=3600, inst="pow I9F23", bounds="family x family"))
    p["bounds"] = ("iteration budget enforced by the tick() hook at the top of every loop body: the solver proves the TIGHTER "
                   "budget W+32 for every operand (a call that needs more iterations fails the 'iteration budget exceeded' "
                   "check; unwinding = W+34 with unwinding assertions on); a counterexample is replayed natively with the "
                   "property's budget 4*W+64 and reported only if it exceeds that; operands as for C12 but sin/cos over the "
                   "FULL operand range of each type (no |x| <= 200 restriction)")
    p["outside"] = ["operands outside the families for sqrt/ln/log2/exp on 64/128-bit types (their trip counts are literals "
                    "0..frac_nbits plus the halving loop of log2_inner)", "powi (linear in |n| by design)"]
    return p
