"""C17 – math functions do a bounded amount of work (iteration counter hook with a budget)."""
from . import c12


def plan(tier, seed, kf_ids):
    p = c12.plan(tier, seed, kf_ids, prefix="c17", budget=True)
    from core import Job
    from . import trans as T
    a = "I9F23"
    name = "c17_pow_i9f23_family"
    p["jobs"].append(Job(name, "tr_total_pow!(%s, %d, I9F23, I9F23, i32, %s, %s, %s);" % (name, T.budget(a) + 2, T.family(a), T.family(a), T.budget_expr(a)),
                         "pow::<I9F23,I9F23>(x, y) for x and y in the operand family (every binade +-255 ulps, max - t, min + t): within the "
                         "iteration budget", timeout=3600, inst="pow I9F23", bounds="family x family"))
    # single operands (constants folded by the solver's front end, seconds each): witnesses on the wide types and at operands
    # where an iterate-until-converged loop would cycle (n^2 +- 2n ulp for Newton's square root)
    wit = [("sqrt", "I9F23", "(4i32 << 23) + 4"), ("sqrt", "I9F23", "(4i32 << 23) - 4"), ("sqrt", "I9F23", "(9i32 << 23) + 6"), ("sqrt", "I9F23", "i32::MAX"),
           ("sqrt", "I9F23", "(1i32 << 23) + 2"), ("sqrt", "I32F32", "(4i64 << 32) + 4"), ("sqrt", "I32F32", "(9i64 << 32) - 6"), ("sqrt", "I32F32", "i64::MAX"),
           ("sqrt", "I16F48", "(25i64 << 48) + 10"), ("sqrt", "I64F64", "(9i128 << 64) + 6"), ("sqrt", "I64F64", "i128::MAX"), ("sqrt", "U32F32", "u64::MAX"),
           ("sqrt", "U64F64", "(9u128 << 64) + 6"),
           ("log2", "I32F32", "i64::MAX"), ("log2", "I64F64", "i128::MAX"), ("log2", "I32F32", "3i64 << 20"), ("log2", "I64F64", "5i128 << 40"),
           ("ln", "I32F32", "i64::MAX"), ("exp", "I32F32", "(20i64 << 32) + 12345"), ("exp", "I64F64", "-(40i128 << 64)"), ("exp", "I16F48", "9i64 << 48")]
    for i, (fun, al, expr) in enumerate(wit):
        j = T.total1("c17", fun, al, al, expr, "w%d" % i, T.budget(al) + 2, T.budget_expr(al), timeout=600,
                     bounds="ONE operand (%s): a witness, not a universally quantified obligation" % expr)
        j.concrete = "vec![]"
        j.prio = 1
        p["jobs"].append(j)
    for i, (fun, al, expr) in enumerate((("sin", "I64F64", "i128::MAX"), ("sin", "I64F64", "i128::MIN + 1"), ("cos", "I16F48", "i64::MAX - (3i64 << 48)"),
                                         ("sin", "I40F88", "i128::MAX"), ("tan", "I32F32", "(99i64 << 32) + 777"))):
        j = T.trig("c17", fun, al, expr, "w%d" % i, T.budget(al) + 2, T.budget_expr(al), 0, timeout=600)
        j.concrete = "vec![]"
        j.prio = 1
        j.bounds = "ONE operand (%s): a witness, not a universally quantified obligation" % expr
        p["jobs"].append(j)
    p["bounds"] = ("iteration budget enforced by the tick() hook at the top of every loop body: the solver proves the TIGHTER "
                   "budget W+32 for every operand (a call that needs more iterations fails the 'iteration budget exceeded' "
                   "check; unwinding = W+34 with unwinding assertions on); a counterexample is replayed natively with the "
                   "property's budget 4*W+64 and reported only if it exceeds that; operands as for C12 but sin/cos over the "
                   "FULL operand range of each type (no |x| <= 200 restriction)")
    p["outside"] = ["operands outside the families for sqrt/ln/log2/exp on 64/128-bit types (their trip counts are literals "
                    "0..frac_nbits plus the halving loop of log2_inner)", "powi (linear in |n| by design)"]
    return p
