#!/usr/bin/env python3
"""MANIFEST.setup_cmd: offline sanity check of the tool chain and a warm-up build of the harness
crate's dependencies (so that the first check does not pay for it).  Builds nothing outside /verif."""
import os
import shutil
import subprocess
import sys

sys.path.insert(0, os.path.dirname(os.path.abspath(__file__)))
import core  # noqa: E402


def main():
    ok = True
    for tool in (["cargo", "kani", "--version"], ["cbmc", "--version"]):
        try:
            out = subprocess.run(tool, capture_output=True, text=True, env=core.ENV, timeout=120)
            print(" ".join(tool), "->", (out.stdout or out.stderr).strip().splitlines()[0])
        except Exception as e:  # pragma: no cover
            print("MISSING", tool, e)
            ok = False
    if not ok:
        sys.exit(1)
    # warm-up: compile the harness crate with no property feature (dependencies only)
    ws = core.Workspace("setup-%d" % os.getpid())
    try:
        rc, log, dt = ws.build([])
        print("warm-up build rc=%d in %.0fs" % (rc, dt))
        if rc != 0:
            print(open(log, errors="replace").read()[-3000:])
            sys.exit(1)
    finally:
        ws.cleanup()
    print("setup ok")


if __name__ == "__main__":
    main()
