"""Driver core: builds the Kani harness crate against /repo's working tree, runs
harnesses in parallel, parses CBMC verdicts, replays counterexamples natively,
writes evidence.  Standard library only."""
import concurrent.futures as cf
import hashlib
import json
import os
import re
import shutil
import signal
import subprocess
import sys
import time

VERIF = os.path.dirname(os.path.dirname(os.path.abspath(__file__)))
REPO = os.environ.get("VERIF_REPO", "/repo")
HK = os.path.join(VERIF, "hk")
WORK = os.path.join(VERIF, ".work")
GUARD = "substrate_fixed_verif"
NCPU = os.cpu_count() or 4

ENV = dict(os.environ)
ENV.update({
    "CARGO_NET_OFFLINE": "true",
    "RUSTFLAGS": "--cfg " + GUARD,
    "CARGO_TERM_COLOR": "never",
})
ENV.pop("RUSTUP_TOOLCHAIN", None)


class Job:
    """One solver obligation = one Kani proof harness."""

    def __init__(self, name, code, desc, timeout=600, allow=(), kf=None,
                 kani_args=(), mem_gb=24, group=None, unwind=None, expect_covers=True,
                 inst=None, bounds=None, expect_fail=()):
        self.name = name          # harness fn name (unique in crate)
        self.code = code          # Rust source emitted into gen file
        self.desc = desc          # obligation in words (evidence sample)
        self.timeout = timeout
        self.allow = list(allow)  # regexes of failing-check descriptions that are expected
        self.kf = kf              # known-finding id this harness is the witness of
        self.kani_args = list(kani_args)
        self.mem_gb = mem_gb
        self.group = group
        self.unwind = unwind
        self.inst = inst          # type instantiation text
        self.bounds = bounds      # free text of the bound of this obligation
        self.expect_fail = list(expect_fail)  # regexes: a failing check matching each must exist (must-panic)
        self.genfile = None       # generated file the harness lives in when it is not gen_<feature>.rs
        self.prio = 5             # lower runs earlier (what must be decided even when the run budget is short)
        self.concrete = None      # harness whose inputs are fully determined: the Rust expression of its playback values (e.g. "vec![]")


class Result:
    def __init__(self, job):
        self.job = job
        self.status = "error"     # ok | fail | timeout | error | unwind
        self.failed = []          # [(description, location)]
        self.covers = {}          # desc -> status
        self.nchecks = 0
        self.solver_s = 0.0
        self.wall_s = 0.0
        self.playback = []        # [(check_desc, test_name, test_src)]
        self.log = None
        self.note = ""


CHECK_RE = re.compile(
    r"^Check \d+: (?P<name>[^\n]*)\n[ \t]+- Status: (?P<status>\w+)\n[ \t]+- Description: \"(?P<desc>(?:.|\n)*?)\"\n"
    r"(?:[ \t]+- Location: (?P<loc>[^\n]*)\n)?(?=\n|Check|\Z)",
    re.M)
PLAYBACK_RE = re.compile(
    r"Concrete playback unit test for `(?P<h>[^`]+)`:\n```\n(?P<src>.*?)\n```", re.S)


def parse_log(text, res):
    for m in CHECK_RE.finditer(text):
        res.nchecks += 1
        name, status, desc, loc = m.group("name", "status", "desc", "loc")
        desc = " ".join(desc.strip('"').split())
        if ".cover." in name or name.endswith(".cover"):
            # keep the strongest status for a description used more than once
            prev = res.covers.get(desc)
            if prev != "SATISFIED":
                res.covers[desc] = status
            continue
        if status in ("FAILURE", "FAILED"):
            res.failed.append((desc, loc or ""))
        elif status == "UNDETERMINED" and "unwinding assertion" in desc:
            pass
    for m in PLAYBACK_RE.finditer(text):
        src = m.group("src")
        cm = re.search(r"/// Check for `(\w+)`: \"(.*)\"", src)
        nm = re.search(r"fn (kani_concrete_playback_\w+)\(", src)
        res.playback.append((cm.group(1) if cm else "", cm.group(2).strip('"') if cm else "",
                             nm.group(1) if nm else "", src))
    m = re.search(r"Verification Time: ([0-9.]+)s", text)
    if m:
        res.solver_s = float(m.group(1))
    if not res.failed:
        for m in re.finditer(r"^Failed Checks: (.*)\n File: (.*)$", text, re.M):
            res.failed.append((m.group(1).strip('"'), m.group(2)))
    if "VERIFICATION:- SUCCESSFUL" in text and not res.failed:
        res.status = "ok"
    elif "VERIFICATION:- FAILED" in text:
        res.status = "fail"
        if "CBMC failed" in text or "Status: ERROR" in text or "out of memory" in text.lower() \
                or "std::bad_alloc" in text:
            res.status = "error"
            res.note = "CBMC error/out of memory"
    else:
        res.status = "error"
        res.note = "no verdict in log"
    return res


def sh(cmd, cwd=None, env=None, timeout=None, log=None):
    t0 = time.time()
    out = open(log, "w") if log else subprocess.PIPE
    try:
        p = subprocess.Popen(cmd, cwd=cwd, env=env or ENV, stdout=out, stderr=subprocess.STDOUT,
                             start_new_session=True, text=True)
        try:
            so, _ = p.communicate(timeout=timeout)
            rc = p.returncode
        except subprocess.TimeoutExpired:
            os.killpg(p.pid, signal.SIGKILL)
            p.wait()
            so, rc = None, -9
    finally:
        if log:
            out.close()
    return rc, so, time.time() - t0


class Workspace:
    """A private copy of the harness crate for one check run."""

    def __init__(self, tag):
        self.dir = os.path.join(WORK, tag)
        if os.path.exists(self.dir):
            shutil.rmtree(self.dir, ignore_errors=True)
        os.makedirs(self.dir)
        self.hk = os.path.join(self.dir, "hk")
        shutil.copytree(HK, self.hk, ignore=shutil.ignore_patterns("target", "Cargo.lock"))
        # patch the path dependency if a different repo root is asked for
        if REPO != "/repo":
            p = os.path.join(self.hk, "Cargo.toml")
            s = open(p).read().replace('path = "/repo"', 'path = "%s"' % REPO)
            open(p, "w").write(s)
        lock = os.path.join(REPO, "Cargo.lock")
        if os.path.exists(lock):
            shutil.copy(lock, os.path.join(self.hk, "Cargo.lock"))
        self.target = os.path.join(self.dir, "target")
        self.logs = os.path.join(self.dir, "logs")
        os.makedirs(self.logs)

    def write_gen(self, feature, jobs, extra=""):
        path = os.path.join(self.hk, "src", "gen_%s.rs" % feature)
        with open(path, "w") as f:
            f.write("// generated by vk for this run\n")
            f.write(extra)
            for j in jobs:
                f.write(j.code.rstrip() + "\n")

    def build(self, features, timeout=3600):
        cmd = ["cargo", "kani", "--only-codegen", "--target-dir", self.target,
               "-Z", "stubbing", "-Z", "unstable-options"]
        if features:
            cmd += ["--features", ",".join(features)]
        log = os.path.join(self.logs, "_build.log")
        rc, _, dt = sh(cmd, cwd=self.hk, timeout=timeout, log=log)
        return rc, log, dt

    def cleanup(self, keep_logs_to=None):
        if keep_logs_to:
            os.makedirs(keep_logs_to, exist_ok=True)
            for f in os.listdir(self.logs):
                shutil.copy(os.path.join(self.logs, f), os.path.join(keep_logs_to, f))
        shutil.rmtree(self.dir, ignore_errors=True)


def resolve_harness_names(ws, names):
    """--exact needs the full path of the harness; find it in kani metadata."""
    full = {}
    for root, _, files in os.walk(ws.target):
        for f in files:
            if f.endswith(".kani-metadata.json"):
                try:
                    md = json.load(open(os.path.join(root, f)))
                except Exception:
                    continue
                for h in md.get("proof_harnesses", []):
                    pn = h.get("pretty_name", "")
                    short = pn.split("::")[-1]
                    full[short] = pn
    return full


def harness_metadata(ws):
    """pretty/short harness name -> metadata entry of the all-harness codegen build."""
    out = {}
    for root, _, files in os.walk(ws.target):
        for f in files:
            if f.endswith(".kani-metadata.json"):
                try:
                    md = json.load(open(os.path.join(root, f)))
                except Exception:
                    continue
                for h in md.get("proof_harnesses", []):
                    if os.path.exists(h.get("goto_file", "")):
                        out[h.get("pretty_name", "").split("::")[-1]] = h
    return out


KANI_HOME = os.path.expanduser("~/.kani/kani-0.68.0")
KANI_LIB_C = os.path.join(KANI_HOME, "library", "kani", "kani_lib.c")
# the flags kani-driver 0.68 passes to CBMC 6.11 (read from `cargo kani --verbose`); unwinding
# assertions are on by default in CBMC 6
CBMC_FLAGS = ["--no-malloc-may-fail", "--no-undefined-shift-check", "--no-signed-overflow-check", "--nan-check",
              "--no-self-loops-to-assumptions", "--no-pointer-primitive-check", "--object-bits", "16",
              "--sat-solver", "cadical", "--slice-formula"]


def direct_available():
    return os.path.exists(KANI_LIB_C) and shutil.which("goto-cc") and shutil.which("goto-instrument") \
        and shutil.which("cbmc") and not os.environ.get("VERIF_NO_DIRECT")


def mem_workers(per_worker_gb=4):
    """number of solver processes the machine can hold (MemAvailable / per_worker_gb), at most NCPU - 2"""
    try:
        for line in open("/proc/meminfo"):
            if line.startswith("MemAvailable:"):
                gb = int(line.split()[1]) / 1048576.0
                return max(2, min(NCPU - 2, int(gb // per_worker_gb)))
    except Exception:
        pass
    return max(2, NCPU - 2)


def run_job_direct(ws, job, md, timeout=None):
    """The steps kani-driver performs for one harness (goto-cc link, entry point, CPROVER library,
    function-body generation, back-edge normalisation, cbmc), run on the goto program that the one
    all-harness codegen build produced - no cargo invocation, no build lock, no recompilation.
    Returns None if a preparation step fails (caller falls back to `cargo kani --harness`)."""
    res = Result(job)
    gdir = os.path.join(ws.dir, "goto")
    os.makedirs(gdir, exist_ok=True)
    out = os.path.join(gdir, job.name + ".out")
    log = os.path.join(ws.logs, job.name + ".log")
    res.log = log
    t0 = time.time()
    mangled = md["mangled_name"]
    steps = [
        ["goto-cc", md["goto_file"], KANI_LIB_C, "-o", out],
        ["goto-cc", out, "--function", mangled, "-o", out],
        ["goto-instrument", "--add-library", "--no-malloc-may-fail", out, out],
        ["goto-instrument", "--generate-function-body-options", "assert-false-assume-false",
         "--generate-function-body", ".*", "--drop-unused-functions", out, out],
        ["goto-instrument", "--ensure-one-backedge-per-target", out, out],
    ]
    with open(log, "w") as lf:
        lf.write("# direct pipeline for %s\n" % md.get("pretty_name"))
    for st in steps:
        rc, so, _ = sh(st, cwd=ws.hk, timeout=600)
        if rc != 0:
            with open(log, "a") as lf:
                lf.write("step failed: %s\n%s\n" % (" ".join(st), (so or "")[-2000:]))
            return None
    unwind = md.get("attributes", {}).get("unwind_value")
    cmd = ["cbmc"] + CBMC_FLAGS + (["--unwind", str(unwind)] if unwind is not None else []) + \
          [out, "--verbosity", "4", "--json-ui"]
    jout = os.path.join(gdir, job.name + ".json")
    shcmd = "ulimit -v %d; exec %s > %s 2>> %s" % (job.mem_gb * 1024 * 1024, " ".join("'%s'" % c for c in cmd), jout, log)
    tc = time.time()
    eff_timeout = timeout or job.timeout
    rc, _, dt = sh(["bash", "-c", shcmd], cwd=ws.hk, timeout=eff_timeout)
    res.solver_s = round(time.time() - tc, 2)
    res.wall_s = time.time() - t0
    try:
        os.remove(out)
    except OSError:
        pass
    if rc == -9:
        res.status = "timeout"
        res.note = ("exceeded %ds" % job.timeout) if eff_timeout >= job.timeout else ("exceeded run budget (stopped after %ds)" % eff_timeout)
        return res
    try:
        data = json.load(open(jout))
    except Exception as e:
        res.status = "error"
        res.note = "CBMC error/out of memory (no parsable output, rc=%s)" % rc
        return res
    finally:
        try:
            os.remove(jout)
        except OSError:
            pass
    results = None
    errors = []
    for e in data:
        if isinstance(e, dict):
            if "result" in e:
                results = e["result"]
            if e.get("messageType") == "ERROR":
                errors.append(e.get("messageText", ""))
    if results is None:
        res.status = "error"
        res.note = "CBMC error/out of memory: %s" % " | ".join(errors)[:300]
        return res
    reach = {}
    for r in results:
        cls = r.get("property", "").rsplit(".", 2)[-2] if r.get("property", "").count(".") >= 2 else ""
        if cls == "reachability_check":
            reach[r.get("description", "")] = r.get("status")
    lines = []
    unwind_fail = False
    for r in results:
        name = r.get("property", "")
        cls = name.rsplit(".", 2)[-2] if name.count(".") >= 2 else ""
        if cls == "reachability_check":
            continue
        res.nchecks += 1
        desc = r.get("description", "")
        m = re.match(r"\[(KANI_CHECK_ID_[^\]]*)\]\s*", desc)
        if m:
            desc = desc[m.end():]
        desc = " ".join(desc.strip('"').split())
        sl = r.get("sourceLocation", {}) or {}
        f = sl.get("file", "")
        if f.startswith(ws.hk + "/"):
            f = f[len(ws.hk) + 1:]
        loc = "%s:%s:%s in function %s" % (f, sl.get("line", "?"), sl.get("column", "?"), sl.get("function", "?")) if f else ""
        st = r.get("status")
        if cls == "cover":
            cst = {"FAILURE": "SATISFIED", "SUCCESS": "UNSATISFIABLE"}.get(st, st)
            if res.covers.get(desc) != "SATISFIED":
                res.covers[desc] = cst
            lines.append("cover %s: %s" % (desc, cst))
            continue
        if st == "FAILURE":
            if cls == "unwind" or "unwinding assertion" in desc:
                unwind_fail = True
            res.failed.append((desc, loc))
            lines.append("FAILURE %s @ %s" % (desc, loc))
        elif st not in ("SUCCESS",):
            errors.append("property %s status %s" % (name, st))
    with open(log, "a") as lf:
        lf.write("\n".join(lines) + "\n")
        lf.write("checks=%d failed=%d cbmc_wall=%.2fs\n" % (res.nchecks, len(res.failed), res.solver_s))
    if errors and not res.failed:
        res.status = "error"
        res.note = "CBMC error: %s" % " | ".join(errors)[:300]
    elif res.failed:
        res.status = "fail"
        unw = [d for d, _ in res.failed if "unwinding assertion" in d]
        if unw and len(unw) == len(res.failed):
            res.status = "unwind"
            res.note = "unwinding bound too small"
    else:
        res.status = "ok"
    return res


def run_jobs(ws, features, jobs, workers=None, progress=True, need_playback=None, deadline=None, soft_deadline=None):
    """deadline (epoch seconds): jobs not finished by then are stopped / not started and come back as status
    'timeout' with a note starting 'exceeded run budget' (= not explored)."""
    workers = min(workers or max(2, min(NCPU - 2, len(jobs))), mem_workers())
    full = resolve_harness_names(ws, [j.name for j in jobs])
    mds = harness_metadata(ws) if direct_available() else {}
    results = []
    t0 = time.time()

    def one(job):
        if job.name in full:
            # run with the fully qualified name so that --exact matches
            job._full = full[job.name]
        left = None
        if soft_deadline and job.prio >= 8 and time.time() > soft_deadline:
            # "as far as the budget allows" obligations are not started in the second half of the run budget
            r = Result(job)
            r.status = "timeout"
            r.note = "exceeded run budget (extra obligation, not started)"
            return r
        if deadline:
            left = deadline - time.time()
            if left < 10:
                r = Result(job)
                r.status = "timeout"
                r.note = "exceeded run budget (not started)"
                return r
        eff = min(job.timeout, int(left)) if left is not None else job.timeout
        if job.name in mds:
            r = run_job_direct(ws, job, mds[job.name], timeout=eff)
            if r is not None and r.status == "error" and "out of memory" in r.note and (not deadline or deadline - time.time() > 60):
                # memory pressure from the neighbours: one more attempt (the pool is usually emptier by now)
                time.sleep(5)
                r = run_job_direct(ws, job, mds[job.name], timeout=min(eff, int(deadline - time.time())) if deadline else eff)
            if r is not None:
                return r
        saved = job.timeout
        job.timeout = eff
        try:
            r = run_job(ws, features, job)
        finally:
            job.timeout = saved
        if r.status == "timeout" and eff < saved:
            r.note = "exceeded run budget (stopped after %ds)" % eff
        return r

    order = {j.name: i for i, j in enumerate(jobs)}
    queue = sorted(jobs, key=lambda j: (0 if j.kf else j.prio, order[j.name]))   # witnesses of known findings first
    with cf.ThreadPoolExecutor(max_workers=workers) as ex:
        futs = {ex.submit(one, j): j for j in queue}
        for fu in cf.as_completed(futs):
            r = fu.result()
            results.append(r)
            if progress:
                sys.stderr.write("[%6.1fs] %-8s %-48s solver=%.1fs wall=%.1fs %s\n" % (
                    time.time() - t0, r.status, r.job.name, r.solver_s, r.wall_s, r.note))
                sys.stderr.flush()
    results.sort(key=lambda r: order[r.job.name])
    return results


def playback_direct(ws, job, md):
    """Counterexample of a refuted harness without kani-driver: the same goto program once more through cbmc with
    --trace; the values returned by kani::any_raw_* in the trace of a failed property are, in order, the byte vectors
    of Kani's concrete playback (this is what kani-driver's test generator extracts).  Returns a list of
    (class, description, test name, test source)."""
    gdir = os.path.join(ws.dir, "goto")
    os.makedirs(gdir, exist_ok=True)
    out = os.path.join(gdir, job.name + ".trace.out")
    steps = [
        ["goto-cc", md["goto_file"], KANI_LIB_C, "-o", out],
        ["goto-cc", out, "--function", md["mangled_name"], "-o", out],
        ["goto-instrument", "--add-library", "--no-malloc-may-fail", out, out],
        ["goto-instrument", "--generate-function-body-options", "assert-false-assume-false",
         "--generate-function-body", ".*", "--drop-unused-functions", out, out],
        ["goto-instrument", "--ensure-one-backedge-per-target", out, out],
    ]
    for st in steps:
        rc, so, _ = sh(st, cwd=ws.hk, timeout=600)
        if rc != 0:
            return []
    unwind = md.get("attributes", {}).get("unwind_value")
    cmd = ["cbmc"] + CBMC_FLAGS + (["--unwind", str(unwind)] if unwind is not None else []) + \
          [out, "--verbosity", "4", "--json-ui", "--trace"]
    jout = os.path.join(gdir, job.name + ".trace.json")
    shcmd = "ulimit -v %d; exec %s > %s 2>/dev/null" % (job.mem_gb * 1024 * 1024, " ".join("'%s'" % c for c in cmd), jout)
    rc, _, dt = sh(["bash", "-c", shcmd], cwd=ws.hk, timeout=max(job.timeout, 600))
    tests = []
    try:
        data = json.load(open(jout))
    except Exception:
        return []
    finally:
        for f in (out, jout):
            try:
                os.remove(f)
            except OSError:
                pass
    results = None
    for e in data:
        if isinstance(e, dict) and "result" in e:
            results = e["result"]
    seen = set()
    for r in results or []:
        name = r.get("property", "")
        cls = name.rsplit(".", 2)[-2] if name.count(".") >= 2 else ""
        if cls == "reachability_check" or r.get("status") != "FAILURE" or not r.get("trace"):
            continue
        vals = []
        for it in r["trace"]:
            if it.get("stepType") != "assignment":
                continue
            lhs = it.get("lhs") or ""
            fn = (it.get("sourceLocation") or {}).get("function") or ""
            v = it.get("value") or {}
            if lhs.startswith("goto_symex$$return_value") and fn.startswith("kani::any_raw_") and v.get("binary") and v.get("width"):
                b = v["binary"]
                w = int(v["width"])
                if w % 8 or len(b) != w:
                    continue
                by = [int(b[i:i + 8], 2) for i in range(0, w, 8)]
                vals.append(list(reversed(by)))     # little-endian target
        key = json.dumps(vals)
        desc = " ".join((r.get("description", "")).split())
        m = re.match(r"\[(KANI_CHECK_ID_[^\]]*)\]\s*", desc)
        if m:
            desc = desc[m.end():]
        if (key, cls == "cover") in seen:
            continue
        seen.add((key, cls == "cover"))
        tn = "kani_concrete_playback_%s_%s" % (job.name, sha(key + desc))
        body = "".join("        vec![%s],\n" % ", ".join(map(str, v)) for v in vals)
        src = ("/// Test generated by vk for harness `%s` from the CBMC trace\n/// Check for `%s`: \"%s\"\n#[test]\nfn %s() {\n"
               "    let concrete_vals: Vec<Vec<u8>> = vec![\n%s    ];\n    kani::concrete_playback_run(concrete_vals, %s);\n}"
               % (job.name, cls, desc.replace("\n", " "), tn, body, job.name))
        tests.append((cls, desc.strip('"'), tn, src))
    return tests


def playback_for(ws, features, res):
    """Concrete playback unit test(s) of a refuted harness: from the CBMC trace directly; kani-driver as fallback."""
    if direct_available() and not os.environ.get("VERIF_KANI_PLAYBACK"):
        mds = harness_metadata(ws)
        if res.job.name in mds:
            res.playback = playback_direct(ws, res.job, mds[res.job.name])
            if [p for p in res.playback if p[0] != "cover"]:
                return res
    r2 = run_job(ws, features, res.job)
    res.playback = r2.playback or res.playback
    if r2.status == "fail" and r2.failed:
        res.failed = r2.failed
    return res


def run_job(ws, features, job):
    name = getattr(job, "_full", job.name)
    res = Result(job)
    log = os.path.join(ws.logs, job.name + ".log")
    res.log = log
    cmd = ["cargo", "kani", "--target-dir", ws.target, "--features", ",".join(features),
           "-Z", "stubbing", "-Z", "unstable-options",
           "--harness", name, "--exact",
           "-Z", "concrete-playback", "--concrete-playback=print"] + job.kani_args
    shcmd = "ulimit -v %d; exec %s" % (job.mem_gb * 1024 * 1024, " ".join(cmd))
    rc, _, dt = sh(["bash", "-c", shcmd], cwd=ws.hk, timeout=job.timeout, log=log)
    res.wall_s = dt
    text = open(log, errors="replace").read()
    if rc == -9:
        res.status = "timeout"
        res.note = "exceeded %ds" % job.timeout
        return res
    parse_log(text, res)
    if res.status == "fail":
        unw = [d for d, _ in res.failed if "unwinding assertion" in d]
        if unw and len(unw) == len(res.failed):
            res.status = "unwind"
            res.note = "unwinding bound too small"
    if res.status == "error" and "no harnesses matched" in text.lower():
        res.note = "harness not found"
    return res


# ---------------------------------------------------------------- replay

def playback_env(release_like):
    env = dict(ENV)
    if release_like:
        for prof in ("TEST", "DEV"):
            env["CARGO_PROFILE_%s_DEBUG_ASSERTIONS" % prof] = "false"
            env["CARGO_PROFILE_%s_OVERFLOW_CHECKS" % prof] = "false"
            env["CARGO_PROFILE_%s_OPT_LEVEL" % prof] = "2"
    return env


def native_replay(hk_dir, feature, module, test_name, test_src, profiles=("dev", "release"),
                  features=None, genfile=None):
    """Insert the playback unit test into the harness module and run it natively.
    Returns {profile: (reproduced: bool, message)}."""
    modfile = os.path.join(hk_dir, "src", genfile or ("gen_%s.rs" % feature))
    marker = "// ---- playback tests\n"
    s = open(modfile).read()
    if marker in s:
        s = s[:s.index(marker)]
    s += marker + test_src + "\n"
    open(modfile, "w").write(s)
    out = {}
    for prof in profiles:
        env = playback_env(prof == "release")
        cmd = ["cargo", "kani", "playback", "-Z", "concrete-playback",
               "--features", ",".join(features or [feature]), "--", test_name]
        rc, so, dt = sh(cmd, cwd=hk_dir, env=env, timeout=900)
        so = so or ""
        ran = re.search(r"test result: (\w+)\. (\d+) passed; (\d+) failed", so)
        if not ran or (int(ran.group(2)) + int(ran.group(3))) == 0:
            out[prof] = (None, "playback did not run: " + so[-1500:])
            continue
        failed = int(ran.group(3)) > 0
        msg = ""
        m = re.search(r"panicked at ([^\n]*)\n([^\n]*)", so)
        if m:
            msg = (m.group(1) + " " + m.group(2)).strip()
        out[prof] = (failed, msg)
    return out


def sha(s):
    return hashlib.sha1(s.encode()).hexdigest()[:10]


# ---------------------------------------------------------------- known findings

def load_known_findings():
    p = os.path.join(VERIF, "known_findings.json")
    if not os.path.exists(p):
        return []
    return json.load(open(p)).get("findings", [])


def open_findings(prop):
    return [f for f in load_known_findings()
            if prop in f.get("properties", [f.get("property")]) and f.get("status") == "open"]


# ---------------------------------------------------------------- evidence

def write_evidence(prop, tier, seed, coverage, assumptions, wall_s, violations):
    os.makedirs(os.path.join(VERIF, "evidence"), exist_ok=True)
    ev = {
        "property_id": prop,
        "tier": tier,
        "seed": seed,
        "level": "model_checking",
        "coverage": coverage,
        "assumptions": assumptions,
        "wall_s": round(wall_s, 1),
        "violations": violations,
    }
    p = os.path.join(VERIF, "evidence", prop + ".json")
    tmp = p + ".tmp"
    with open(tmp, "w") as f:
        json.dump(ev, f, indent=1)
    os.replace(tmp, p)
    return p
