#!/usr/bin/env python3
"""Regenerates /verif/MANIFEST.json from the table below (kept next to the checks so that the
manifest never drifts from what vk/check.py can run) and validates it against the schema."""
import json
import os
import sys

VERIF = os.path.dirname(os.path.dirname(os.path.abspath(__file__)))

# property id -> (level text, level_note, technique, design_ref)
KANI = "Kani proof harnesses (CBMC bit-precise SAT, CaDiCaL) over symbolic operands; exact integer oracle in wider words"
TRUST = ("Trusted: Kani/CBMC/CaDiCaL, the MIR of Kani's pinned rustc (dev profile: debug assertions and overflow checks on), "
         "the oracle code in hk/src. ")
CHECKS = {
    "C01": (
        "Bounded model checking of the compiled crate: for each instantiated alias the solver decides over ALL operand pairs "
        "that mul equals floor(a*b/2^f) (2W-bit product oracle) and that div's overflow flag and quotient are exact "
        "(shift/compare criterion + multiply-back, no second division). Full operand space for widths 8-32 (mul also 64); "
        "128-bit mul on stated operand families. Bounded in the set of fractional counts instantiated and in width for division.",
        TRUST + "Outside: 64/128-bit division (wide_div.rs), 128-bit mul outside the families, wrapped value of an overflowing "
        "division for widths >= 16.", KANI, "DESIGN.md 4 C01"),
    "C02": (
        "Bounded model checking: per alias and per policy form (one library multiplication/division per query) the solver decides "
        "over all operand pairs that checked/saturating/wrapping/overflowing (and the operator) agree with one exact result R "
        "computed in 256-bit two's complement; zero divisors give None.",
        TRUST + "Outside: 128-bit mul/div policy forms, 64-bit division, aliases not instantiated.", KANI, "DESIGN.md 4 C02"),
    "C03": (
        "Bounded model checking: for each instantiated (type, type) pair the solver decides over every bit pattern of both operands "
        "(every float bit pattern incl. NaN/inf/subnormals) that all six operators and partial_cmp, in both operand orders, equal "
        "the comparison of the exact rationals (sign/magnitude oracle); Eq/Ord/Hash within a type.",
        TRUST + "Outside: layout pairs not instantiated (every unordered family pair is covered at 3 (quick) / 13 (thorough) "
        "layout pairs), f16/bf16.", KANI, "DESIGN.md 4 C03"),
    "C04": (
        "Bounded model checking: for each instantiated ordered (source, destination) pair the solver decides over every source "
        "value that to_num/from_num and the four policy forms equal floor(v*2^dst_frac) with exact overflow (sign/magnitude "
        "256-bit oracle); From/LossyFrom at the edges of their type-level bounds are value preserving / lose only fraction bits.",
        TRUST + "Outside: pairs not instantiated; absence of inadmissible From impls (compile-time).", KANI, "DESIGN.md 4 C04"),
    "C05": (
        "Bounded model checking on bit patterns (no floating-point operation is executed): every finite f32/f64 pattern into "
        "each instantiated alias equals round-to-nearest-even with overflow decided on the rounded value, per policy form; every "
        "fixed value to f32/f64 equals the IEEE RNE result incl. subnormals and overflow to infinity; NaN/inf: checked None, "
        "saturating bounds, everything else must panic (the post-call assertion is unreachable).",
        TRUST + "Outside: aliases not instantiated, f16/bf16.", KANI, "DESIGN.md 4 C05"),
    "C06": (
        "Bounded model checking: for every value of each instantiated alias all forms of floor/ceil/round/round_ties_to_even, "
        "round_to_zero, int and frac equal exact integer rounding (flag, wrapped value, None, saturation side). "
        "Thorough tier instantiates all 507 aliases.",
        TRUST + "Outside (quick): aliases other than fractional counts {0,1,2,W/2,W-2,W-1,W}+2 seeded per family.", KANI, "DESIGN.md 4 C06"),
    "C07": (
        "Bounded model checking: widths 8 (every operation, every fractional count, both signs) and 16 (integer-divisor forms): "
        "all operand pairs against exact remainders / Euclidean quotients computed in i32/i64, including flags, wrapped values, "
        "None and saturation side. Three genuine defects of div_euclid are recorded as known findings with their exact regions "
        "carved out (known_findings.json).",
        TRUST + "Outside: widths >= 32 and 16-bit fixed-divisor forms (two dividers of the same operands stall the SAT back end; "
        "the code is one macro body for all widths).", KANI, "DESIGN.md 4 C07"),
    "C10": (
        "Bounded model checking of the compiled crate: for each instantiated alias CBMC decides, over every bit "
        "pattern / every byte string of the type's width, that encode/decode/max_encoded_len and all byte views "
        "are the little-endian bytes of the bits. Full operand space per alias, so the verdict is exhaustive in "
        "the inputs; bounded in the set of aliases instantiated (code is generic in Frac and never reads it).",
        TRUST + "Little-endian x86_64 target. Outside the claim: serde representation, aliases not instantiated.",
        "Kani proof harnesses (CBMC bit-precise SAT) over symbolic bit patterns and byte strings",
        "DESIGN.md 4 C10"),
}

NOT_YET = {}

NA = []


def main():
    props = [json.loads(l)["id"] for l in open(os.path.join(VERIF, "properties.jsonl"))]
    checks = []
    for pid in props:
        if pid not in CHECKS:
            continue
        text, note, tech, ref = CHECKS[pid]
        checks.append({
            "property_id": pid,
            "quick_cmd": "python3 vk/check.py %s --tier quick" % pid,
            "thorough_cmd": "python3 vk/check.py %s --tier thorough" % pid,
            "evidence_file": "evidence/%s.json" % pid,
            "replay_cmd_template": "python3 vk/check.py replay {path}",
            "engine": "kani-harness",
            "level_claimed": {"category": "model_checking", "text": text, "design_ref": ref},
            "level_note": note,
            "technique": tech,
        })
    na = list(NA)
    for pid in props:
        if pid not in CHECKS and pid not in [n["property_id"] for n in na]:
            na.append({"property_id": pid,
                       "reason": "check not built yet at this commit (work in progress; see DESIGN.md §4 for "
                                 "the planned solver-based check)"})
    man = {
        "version": 1,
        "setup_cmd": "python3 vk/setup.py",
        "hooks": {
            "guard": "substrate_fixed_verif",
            "enable": "RUSTFLAGS=\"--cfg substrate_fixed_verif\" (set by vk/core.py for every cargo kani build of "
                      "the harness crate, which depends on /repo by path)",
            "baseline_off_cmd": "cd /repo && cargo test --workspace --no-fail-fast --offline --lib",
            "source_commits": HOOK_COMMITS,
            "add_only": True,
        },
        "engines": [
            {"name": "kani-harness", "path": "hk/ (harnesses) + vk/ (driver)",
             "serves_properties": [c["property_id"] for c in checks],
             "kind_free_text": "Kani 0.68 proof harnesses over the real crate (path dependency on /repo, rebuilt "
                               "on every run), decided by CBMC 6.11 + CaDiCaL; counterexamples replayed natively "
                               "with cargo kani playback before a VIOLATION is printed"},
        ],
        "checks": checks,
        "not_applicable": na,
        "notes": "Exit codes: 0 = all obligations discharged (open known findings printed as KNOWN-FINDING), "
                 "1 = natively reproduced counterexample (VIOLATION line), 2 = inconclusive (time-out, solver "
                 "error, vacuous harness). VERIF_SEED selects the seeded part of the alias/operand-family "
                 "matrix; boundary instantiations are always included.",
    }
    out = os.path.join(VERIF, "MANIFEST.json")
    json.dump(man, open(out, "w"), indent=1)
    try:
        import jsonschema  # available in python3-vt; optional
        jsonschema.validate(man, json.load(open("/root/.vp/MANIFEST.schema.json")))
        print("MANIFEST.json valid (%d checks, %d not_applicable)" % (len(checks), len(na)))
    except ImportError:
        print("MANIFEST.json written (jsonschema not available for validation)")


HOOK_COMMITS = []

if __name__ == "__main__":
    main()
