#!/usr/bin/env python3
"""Regenerates /verif/MANIFEST.json from the table below (kept next to the checks so that the
manifest never drifts from what vk/check.py can run) and validates it against the schema."""
import json
import os
import sys

VERIF = os.path.dirname(os.path.dirname(os.path.abspath(__file__)))

# property id -> (level text, level_note, technique, design_ref)
KANI = "Kani proof harnesses (CBMC bit-precise SAT, CaDiCaL) over symbolic operands; exact integer oracle in wider words"
TRUST = ("Trusted: Kani/CBMC/CaDiCaL, the MIR of Kani's pinned rustc (dev profile: debug assertions and overflow checks on), "
         "the oracle code in hk/src. ")
CHECKS = {
    "C01": (
        "Two solver engines over the current tree. Engine M (MIR -> SMT, cvc5/z3): mul_overflow of all ten integer types and "
        "div_overflow of the eight narrower ones for EVERY fractional-bit count and ALL operands (value mod 2^W, exact overflow "
        "flag, no reachable panic), with the primitive 2W-bit multiply/divide abstracted (trusted) and the 128-bit division's "
        "Knuth-D routine abstracted. Kani/CBMC through the public API (includes the primitive): mul against a 2W-bit product, "
        "div flag by a shift/compare criterion and quotient by multiply-back, full operand space for widths 8-32 (mul 64) at "
        "boundary fractional counts; 128-bit mul on operand families; 64/128-bit div for EVERY dividend against constant divisors "
        "(+-1 ulp, +-2^k, 3, 10 and the two-limb 2^(W/2)+3 that drives the main loop of Knuth D); 64/128-bit mul for EVERY a against "
        "constant power-of-two factors.",
        TRUST + "Engine M additionally trusts cvc5/z3, the nightly MIR dump and the executor vm/mir.py (validated concretely "
        "against exact arithmetic on every run). Outside: 64/128-bit division by a SYMBOLIC divisor at API level (Knuth D of wide_div.rs "
        "is abstracted in Engine M), wrapped value of an overflowing division for widths >= 16 with a symbolic divisor.", "MIR->SMT symbolic execution (cvc5, z3) + " + KANI, "DESIGN.md 1.1b, 4 C01"),
    "C02": (
        "Bounded model checking: per alias and per policy form (one library multiplication/division per query) the solver decides "
        "over all operand pairs that checked/saturating/wrapping/overflowing (and the operator) agree with one exact result R "
        "computed in 256-bit two's complement; zero divisors give None; 64/128-bit division: all five forms for every dividend "
        "against constant power-of-two divisors incl. -1 ulp, multiplication likewise against power-of-two factors; operator, assigning "
        "and by-reference forms of + - and unary - agree with the exact result.",
        TRUST + "Outside: 128-bit mul policy forms outside C01's operand families, 64/128-bit division by a symbolic divisor, aliases "
        "not instantiated.", KANI, "DESIGN.md 4 C02"),
    "C03": (
        "Bounded model checking: for each instantiated (type, type) pair the solver decides over every bit pattern of both operands "
        "(every float bit pattern incl. NaN/inf/subnormals) that all six operators and partial_cmp, in both operand orders, equal "
        "the comparison of the exact rationals (sign/magnitude oracle); Eq/Ord/Hash within a type. Engine M additionally decides "
        "the conversion kernel to_fixed_helper (bits, dir, overflow) for all values at ~1100 (quick) layout triples from the MIR.",
        TRUST + "Engine M: cvc5/z3, MIR dump, vm/mir.py. Outside: layout pairs not instantiated (every unordered family pair is "
        "covered at 3 (quick) / 13 (thorough) layout pairs), f16/bf16.", KANI + " + MIR->SMT (cvc5, z3) for the conversion kernel", "DESIGN.md 1.1b, 4 C03"),
    "C04": (
        "Bounded model checking: for each instantiated ordered (source, destination) pair the solver decides over every source "
        "value that to_num/from_num and the four policy forms equal floor(v*2^dst_frac) with exact overflow (sign/magnitude "
        "256-bit oracle); From/LossyFrom (fixed->fixed, int->fixed, fixed->int) at the edges of their type-level bounds are value "
        "preserving / lose only fraction bits. Engine M additionally decides the kernel to_fixed_helper for all values at ~1100 "
        "(quick) / ~13000 (thorough) layout triples from the MIR.",
        TRUST + "Engine M: cvc5/z3, MIR dump, vm/mir.py. Outside: pairs not instantiated; absence of inadmissible From impls "
        "(compile-time).", KANI + " + MIR->SMT (cvc5, z3) for the conversion kernel", "DESIGN.md 1.1b, 4 C04"),
    "C05": (
        "Bounded model checking on bit patterns (no floating-point operation is executed): every finite f32/f64 pattern into "
        "each instantiated alias equals round-to-nearest-even with overflow decided on the rounded value, per policy form; every "
        "fixed value to f32/f64 equals the IEEE RNE result incl. subnormals and overflow to infinity; NaN/inf: checked None, "
        "saturating bounds, everything else must panic (the post-call assertion is unreachable). The 128-bit layouts with >= 125 "
        "fractional bits (the only ones that resolve f32 subnormals / the lowest normal binade) are always instantiated.",
        TRUST + "Outside: aliases not instantiated, f16/bf16.", KANI, "DESIGN.md 4 C05"),
    "C06": (
        "Bounded model checking: for every value of each instantiated alias all forms of floor/ceil/round/round_ties_to_even, "
        "round_to_zero, int and frac equal exact integer rounding (flag, wrapped value, None, saturation side). "
        "Thorough tier instantiates all 507 aliases.",
        TRUST + "Outside (quick): aliases other than fractional counts {0,1,2,W/2,W-2,W-1,W}+2 seeded per family.", KANI, "DESIGN.md 4 C06"),
    "C07": (
        "Bounded model checking: widths 8 (every operation, every fractional count, both signs) and 16 (integer-divisor forms): "
        "all operand pairs against exact remainders / Euclidean quotients computed in i32/i64, including flags, wrapped values, "
        "None and saturation side; widths 32 and 64: every dividend against constant divisors (+-1 ulp, +-1, powers of two, 3, the minimum, "
        "integer divisors that do not fit the integer part). Three genuine defects of div_euclid are recorded as known findings with "
        "their exact regions carved out (known_findings.json).",
        TRUST + "Outside: symbolic divisors for widths >= 32 and 16-bit fixed-divisor forms (two dividers of the same operands stall the "
        "SAT back end), width 128; the code is one macro body for all widths.", KANI, "DESIGN.md 4 C07"),
    "C08": (
        "Bounded model checking of the real parser on symbolic strings: 8-bit types: every ASCII string up to 4 (quick) / 5 bytes is Ok "
        "exactly when well-formed; every digit string of the listed shapes (up to 3+5 decimal digits; hex/octal/binary shapes) gives "
        "the nearest value, ties to even, with exact overflow flag / wrapped value (exact u64 division oracle), all four forms on "
        "selected shapes; 16-bit slow path (7 fraction digits); tie-anchored literals with a 3-digit symbolic window. Through the "
        "verif_kernels hook the decimal kernels are decided directly: dec_to_bin of the u8 word for every val and nbits, of the u32/u64/"
        "u128 words the rounds-up-to-one (None) decision for every val; dec_str_frac_to_bin::<u8> for every string of 4..8 digits and "
        "every nbits.",
        TRUST + "the hook wrappers (add-only). Outside: longer strings, quotient digits of the 32/64/128-bit kernels (division by the "
        "constant 2*5^k does not finish), non-ASCII input, error kinds.",
        KANI + " (kernels driven through a cfg-guarded hook)", "DESIGN.md 1.5, 4 C08"),
    "C09": (
        "Bounded model checking of the real formatting code through core::fmt into a stack buffer: for every value of the instantiated "
        "8-bit layouts the printed decimal digits satisfy the exact rounding inequality at the digits shown (default and requested "
        "precision 0..=10), the default output parses back to the same value through the real parser, binary/octal/hex outputs parse "
        "back exactly, and six flag/width combinations only add padding, sign and prefix; the Display/FromStr round trip also for "
        "every value of the 16-bit layout U8F8 (when the run budget allows; more 16-bit layouts in the thorough tier). One genuine "
        "defect (close-to-zero cut-off) is a known finding with its region carved out.",
        TRUST + "Stub: core::str::from_utf8 -> ASCII-asserting equivalent. Outside: 32..128-bit types, precision > 10, width > 14.",
        KANI, "DESIGN.md 4 C09"),
    "C10": (
        "Bounded model checking of the compiled crate: for each instantiated alias CBMC decides, over every bit "
        "pattern / every byte string of the type's width, that encode/decode/max_encoded_len and all byte views "
        "are the little-endian bytes of the bits. Full operand space per alias, so the verdict is exhaustive in "
        "the inputs; bounded in the set of aliases instantiated (code is generic in Frac and never reads it).",
        TRUST + "Little-endian x86_64 target. Outside the claim: serde representation, aliases not instantiated.",
        "Kani proof harnesses (CBMC bit-precise SAT) over symbolic bit patterns and byte strings",
        "DESIGN.md 4 C10"),
}

CHECKS.update({
    "C11": (
        "Decomposed claim: a source inventory regenerated on every run (no debug_assertions-conditional code, no unsafe) plus bounded "
        "model checking with debug assertions and overflow checks ON: for the total entry points (all arithmetic policy forms, "
        "rounding, conversions, float conversions, remainders/Euclidean forms at 8 bits, Wrapping, exp/sin) no check of the checking "
        "profile can fire for any operand of the instantiated aliases; an execution in which no check fires is the execution of the "
        "non-checking profile, so values agree.",
        TRUST + "The non-checking profile itself is not compiled by the solver front end; counterexamples are replayed natively in "
        "both profiles; Engine M adds the panic obligations (every assert terminator of the MIR) of the multiplication/division "
        "kernels for every fractional-bit count and all operands. Outside: entry points / aliases not instantiated, wide_div.rs.",
        KANI + " + MIR->SMT panic obligations + source inventory", "DESIGN.md 4 C11"),
    "C12": (
        "Bounded model checking: for I9F23 every operand (2^32) of exp, log2, sin, cos (|x|<=200), tan (clear of poles) returns without "
        "any failed check; sqrt/ln/pow on operand families (every binade +- 255 ulps, extremes) and full range in the thorough tier; "
        "sin on 64/128-bit types over |x|<=200; powi for |n|<=6 and extreme exponents; undefined requests yield Err.",
        TRUST + "Outside: sqrt/log2/ln/pow on 64/128-bit types (memory), most powi exponents.", KANI, "DESIGN.md 4 C12"),
    "C13": (
        "Bounded model checking on neighbourhoods: for each of 2^8 consecutive operands around 0, 1, powers of two, the Err threshold, "
        "the maximum and seeded points, sqrt::<I9F23> / <U9F23> satisfies (r-4)^2 <= x*2^F <= (r+4)^2 in exact integer arithmetic; "
        "single-operand witnesses on I32F32, I16F48 and the cross pairs I9F23->I32F32, I32F32->I64F64, U9F23->U32F32.",
        TRUST + "Coverage is a union of small neighbourhoods, not the operand range; wide types only by one concrete witness of the "
        "known defect.", KANI + " (algebraic oracle)", "DESIGN.md 4 C13"),
    "C14": (
        "Bounded model checking on neighbourhoods of 2^8 operands: log2 / ln of I9F23 lie within the property's tolerance of an "
        "outward-rounded linear enclosure of the true function computed with 200-bit interval arithmetic on every run; also "
        "log2/ln::<I9F23, I32F32> (destination finer than the source) on two neighbourhoods (when the run budget allows; seven in the "
        "thorough tier).",
        TRUST + "mpmath.iv. Coverage is a union of small neighbourhoods.", KANI + " + interval-arithmetic enclosures", "DESIGN.md 4 C14"),
    "C15": (
        "Bounded model checking: exp::<I9F23> on neighbourhoods of 2^8 operands against interval enclosures (2^-20 relative + 64 ulp); "
        "powi conventions (0^n, x^0, x^1, 0^y) and n in {2,3} for every operand against the exact rational power; single-operand "
        "witnesses of exp on I32F32, I16F48, I64F64 and cross type pairs.",
        TRUST + "mpmath.iv. Outside: pow accuracy, |n| > 3, wide types.", KANI + " + interval-arithmetic enclosures", "DESIGN.md 4 C15"),
    "C16": (
        "Bounded model checking: sin/cos::<I9F23> for EVERY angle of the instantiated intervals of width 0.25 lie within 2^-16 of a "
        "piecewise-linear enclosure of the true function (thorough: the whole primary range) and inside [-1-2^-16, 1+2^-16]; the "
        "argument reduction is exact for every |x| <= 200 (cut-point hook), which with the 1-Lipschitz lemma carries the primary-range "
        "result to far angles; single-angle witnesses (pi/4, 1, -199.9, ...) on I9F23, I32F32, I16F48, I64F64.",
        TRUST + "mpmath.iv, the observe() hook. Outside: tan accuracy, CORDIC accuracy on wide types.",
        KANI + " + interval-arithmetic enclosures + cut-point hook", "DESIGN.md 4 C16"),
    "C17": (
        "Bounded model checking with the iteration-counter hook: the solver proves for every operand that no call exceeds the TIGHT "
        "budget W+32 loop iterations (unwinding assertions on); a counterexample is replayed natively against the property's budget "
        "4W+64 and reported only if it exceeds that; single-operand witnesses on the wide types and at the operands where an "
        "iterate-until-converged Newton loop cycles.",
        TRUST + "the tick() hook (add-only). Outside: sqrt/ln/log2/exp on wide types (their loops have literal bounds), pow.",
        KANI + " + budgeted loop counter hook", "DESIGN.md 4 C17"),
    "C18": (
        "Bounded model checking: every operator/method of Wrapping<F> instantiated equals F's wrapping_* method (or the exact result "
        "mod 2^W for products, multiply-back for quotients) for all operands; / /= % %= by value and by reference for every dividend "
        "against constant power-of-two divisors at 32/64/128 bits; zero divisors must panic; every 3-operation program.",
        TRUST + "Outside: division by a symbolic divisor through Wrapping on widths >= 32, multiplication on 64/128 bits.", KANI, "DESIGN.md 4 C18"),
})

NOT_YET = {}

NA = []


def main():
    props = [json.loads(l)["id"] for l in open(os.path.join(VERIF, "properties.jsonl"))]
    checks = []
    for pid in props:
        if pid not in CHECKS:
            continue
        text, note, tech, ref = CHECKS[pid]
        checks.append({
            "property_id": pid,
            "quick_cmd": "python3 vk/check.py %s --tier quick" % pid,
            "thorough_cmd": "python3 vk/check.py %s --tier thorough" % pid,
            "evidence_file": "evidence/%s.json" % pid,
            "replay_cmd_template": "python3 vk/check.py replay {path}",
            "engine": "kani-harness",
            "level_claimed": {"category": "model_checking", "text": text, "design_ref": ref},
            "level_note": note,
            "technique": tech,
        })
    na = list(NA)
    for pid in props:
        if pid not in CHECKS and pid not in [n["property_id"] for n in na]:
            na.append({"property_id": pid,
                       "reason": "check not built yet at this commit (work in progress; see DESIGN.md §4 for "
                                 "the planned solver-based check)"})
    man = {
        "version": 1,
        "setup_cmd": "python3 vk/setup.py",
        "hooks": {
            "guard": "substrate_fixed_verif",
            "enable": "RUSTFLAGS=\"--cfg substrate_fixed_verif\" (set by vk/core.py for every cargo kani build of "
                      "the harness crate, which depends on /repo by path)",
            "baseline_off_cmd": "cd /repo && cargo test --workspace --no-fail-fast --offline --lib",
            "source_commits": HOOK_COMMITS,
            "add_only": True,
        },
        "engines": [
            {"name": "mir-smt", "path": "vm/ (MIR parser, symbolic executor, obligation builders) + vk/enginem.py",
             "serves_properties": ["C01", "C03", "C04", "C11"],
             "kind_free_text": "rustc MIR dump of /repo's working tree (nightly, debug assertions and overflow checks on) executed "
                               "symbolically into SMT-LIB (integers with McCormick-abstracted products, 400-bit bit-vectors), decided "
                               "by cvc5 with z3 as cross-check; candidates re-queried exactly and replayed natively through the public API"},
            {"name": "kani-harness", "path": "hk/ (harnesses) + vk/ (driver)",
             "serves_properties": [c["property_id"] for c in checks],
             "kind_free_text": "Kani 0.68 proof harnesses over the real crate (path dependency on /repo, rebuilt "
                               "on every run), decided by CBMC 6.11 + CaDiCaL; counterexamples replayed natively "
                               "with cargo kani playback before a VIOLATION is printed"},
        ],
        "checks": checks,
        "not_applicable": na,
        "notes": "Exit codes: 0 = every explored obligation discharged (open known findings printed as KNOWN-FINDING), "
                 "1 = natively reproduced counterexample (VIOLATION line), 2 = inconclusive (solver error, vacuous harness, "
                 "non-reproducing counterexample). The quick check stops itself after VERIF_BUDGET_S (default 800) seconds: "
                 "obligations it did not get to, or that hit their own time/memory limit, are printed as UNDECIDED, listed in the "
                 "evidence and never counted as discharged. VERIF_SEED selects the seeded part of the alias/operand-family "
                 "matrix; boundary instantiations are always included.",
    }
    out = os.path.join(VERIF, "MANIFEST.json")
    json.dump(man, open(out, "w"), indent=1)
    try:
        import jsonschema  # available in python3-vt; optional
        jsonschema.validate(man, json.load(open("/root/.vp/MANIFEST.schema.json")))
        print("MANIFEST.json valid (%d checks, %d not_applicable)" % (len(checks), len(na)))
    except ImportError:
        print("MANIFEST.json written (jsonschema not available for validation)")


HOOK_COMMITS = ["7047929", "25490b6", "03d4b0c"]

if __name__ == "__main__":
    main()
