#!/usr/bin/env python3
"""Regenerates /verif/MANIFEST.json from the table below (kept next to the checks so that the
manifest never drifts from what vk/check.py can run) and validates it against the schema."""
import json
import os
import sys

VERIF = os.path.dirname(os.path.dirname(os.path.abspath(__file__)))

# property id -> (level text, level_note, technique, design_ref)
CHECKS = {
    "C10": (
        "Bounded model checking of the compiled crate: for each instantiated alias CBMC decides, over every bit "
        "pattern / every byte string of the type's width, that encode/decode/max_encoded_len and all byte views "
        "are the little-endian bytes of the bits. Full operand space per alias, so the verdict is exhaustive in "
        "the inputs; bounded in the set of aliases instantiated (code is generic in Frac and never reads it).",
        "Trusted: Kani/CBMC/CaDiCaL, rustc MIR of the Kani toolchain, little-endian x86_64 target. Outside the "
        "claim: serde representation, aliases not instantiated.",
        "Kani proof harnesses (CBMC bit-precise SAT) over symbolic bit patterns and byte strings",
        "DESIGN.md §4 C10"),
}

NOT_YET = {}

NA = []


def main():
    props = [json.loads(l)["id"] for l in open(os.path.join(VERIF, "properties.jsonl"))]
    checks = []
    for pid in props:
        if pid not in CHECKS:
            continue
        text, note, tech, ref = CHECKS[pid]
        checks.append({
            "property_id": pid,
            "quick_cmd": "python3 vk/check.py %s --tier quick" % pid,
            "thorough_cmd": "python3 vk/check.py %s --tier thorough" % pid,
            "evidence_file": "evidence/%s.json" % pid,
            "replay_cmd_template": "python3 vk/check.py replay {path}",
            "engine": "kani-harness",
            "level_claimed": {"category": "model_checking", "text": text, "design_ref": ref},
            "level_note": note,
            "technique": tech,
        })
    na = list(NA)
    for pid in props:
        if pid not in CHECKS and pid not in [n["property_id"] for n in na]:
            na.append({"property_id": pid,
                       "reason": "check not built yet at this commit (work in progress; see DESIGN.md §4 for "
                                 "the planned solver-based check)"})
    man = {
        "version": 1,
        "setup_cmd": "python3 vk/setup.py",
        "hooks": {
            "guard": "substrate_fixed_verif",
            "enable": "RUSTFLAGS=\"--cfg substrate_fixed_verif\" (set by vk/core.py for every cargo kani build of "
                      "the harness crate, which depends on /repo by path)",
            "baseline_off_cmd": "cd /repo && cargo test --workspace --no-fail-fast --offline --lib",
            "source_commits": HOOK_COMMITS,
            "add_only": True,
        },
        "engines": [
            {"name": "kani-harness", "path": "hk/ (harnesses) + vk/ (driver)",
             "serves_properties": [c["property_id"] for c in checks],
             "kind_free_text": "Kani 0.68 proof harnesses over the real crate (path dependency on /repo, rebuilt "
                               "on every run), decided by CBMC 6.11 + CaDiCaL; counterexamples replayed natively "
                               "with cargo kani playback before a VIOLATION is printed"},
        ],
        "checks": checks,
        "not_applicable": na,
        "notes": "Exit codes: 0 = all obligations discharged (open known findings printed as KNOWN-FINDING), "
                 "1 = natively reproduced counterexample (VIOLATION line), 2 = inconclusive (time-out, solver "
                 "error, vacuous harness). VERIF_SEED selects the seeded part of the alias/operand-family "
                 "matrix; boundary instantiations are always included.",
    }
    out = os.path.join(VERIF, "MANIFEST.json")
    json.dump(man, open(out, "w"), indent=1)
    try:
        import jsonschema  # available in python3-vt; optional
        jsonschema.validate(man, json.load(open("/root/.vp/MANIFEST.schema.json")))
        print("MANIFEST.json valid (%d checks, %d not_applicable)" % (len(checks), len(na)))
    except ImportError:
        print("MANIFEST.json written (jsonschema not available for validation)")


HOOK_COMMITS = []

if __name__ == "__main__":
    main()
