"""Engine M driver: MIR dump of /repo's working tree -> symbolic execution (vm/mir.py) -> SMT queries
(cvc5; z3 as a cross-check) for the 128-bit multiplication kernel; candidate counterexamples are
re-queried with the exact non-linear product and replayed natively through the public API."""
import json
import os
import random
import re
import shutil
import subprocess
import sys
import time

import core

sys.path.insert(0, core.VERIF)
from vm import mir, mulcheck  # noqa: E402


def dump_mir(workdir):
    src = os.path.join(workdir, "mirsrc")
    if os.path.exists(src):
        shutil.rmtree(src)
    shutil.copytree(core.REPO, src, ignore=shutil.ignore_patterns("target", ".git"))
    env = dict(os.environ, CARGO_NET_OFFLINE="true", CARGO_TARGET_DIR=os.path.join(workdir, "mirtarget"))
    env.pop("RUSTFLAGS", None)
    out = os.path.join(workdir, "mir.txt")
    t0 = time.time()
    with open(out, "w") as f:
        p = subprocess.run(["cargo", "+nightly", "rustc", "--offline", "--lib", "--", "-Zunpretty=mir", "-C", "debug-assertions=on",
                            "-C", "overflow-checks=on"], cwd=src, env=env, stdout=f, stderr=subprocess.PIPE, text=True, timeout=900)
    if p.returncode != 0 or os.path.getsize(out) < 100000:
        raise RuntimeError("MIR dump failed: " + p.stderr[-1500:])
    return out, time.time() - t0


REPLAY_TOML = """[package]
name = "mreplay"
version = "0.1.0"
edition = "2021"

[workspace]

[dependencies]
substrate-fixed = { path = "%s", default-features = false }
"""


def native_replay(workdir, ty, f, a, b, op="mul"):
    """run overflowing_<op> / checked_<op> on the concrete operands natively in both profiles and compare with exact arithmetic"""
    from vm import widen
    signed, w = mir.INT_TYPES[ty]
    if op == "mul":
        want_val, want_ovf = widen.spec_mul(a, b, f, ty)
    else:
        want_val, want_ovf = widen.spec_div(a, b, f, ty)
    d = os.path.join(workdir, "mreplay")
    os.makedirs(os.path.join(d, "src"), exist_ok=True)
    open(os.path.join(d, "Cargo.toml"), "w").write(REPLAY_TOML % core.REPO)
    lock = os.path.join(core.REPO, "Cargo.lock")
    if os.path.exists(lock):
        shutil.copy(lock, os.path.join(d, "Cargo.lock"))
    fixed = "Fixed%s%d" % ("I" if signed else "U", w)

    def lit(v):
        if signed and v == -(1 << (w - 1)):
            return "%s::MIN" % ty
        return ("%d%s" % (v, ty)) if v >= 0 else ("(%d%s)" % (v, ty))
    lw = lit(want_val)
    open(os.path.join(d, "src", "lib.rs"), "w").write("""
#[test]
fn replay() {
    use substrate_fixed::{types::extra::U%d, %s};
    type F = %s<U%d>;
    let x = F::from_bits(%s);
    let y = F::from_bits(%s);
    let (v, o) = x.overflowing_%s(y);
    assert_eq!((v.to_bits(), o), (%s, %s), "overflowing_%s is the exact result mod 2^W with the exact flag");
    assert_eq!(x.checked_%s(y).map(|z| z.to_bits()), if %s { None } else { Some(%s) }, "checked_%s");
}
""" % (f, fixed, fixed, f, lit(a), lit(b), op, lw, "true" if want_ovf else "false", op, op, "true" if want_ovf else "false", lw, op))
    out = {}
    for prof in ("dev", "release"):
        env = core.playback_env(prof == "release")
        env.pop("RUSTFLAGS", None)
        env["CARGO_TARGET_DIR"] = os.path.join(workdir, "mreplay_target_" + prof)
        p = subprocess.run(["cargo", "test", "--offline", "--lib"], cwd=d, env=env, capture_output=True, text=True, timeout=900)
        so = p.stdout + p.stderr
        m = re.search(r"test result: (\w+)\. (\d+) passed; (\d+) failed", so)
        if not m:
            out[prof] = (None, so[-600:])
        else:
            msg = re.search(r"panicked at ([^\n]*)\n([^\n]*)", so)
            out[prof] = (int(m.group(3)) > 0, (msg.group(1) + " " + msg.group(2)) if msg else "")
    return out, (want_val, want_ovf)


def fracs(tier, seed):
    """fractional-bit counts of the 128-bit product obligations: every count in both tiers (0.3 s each)"""
    return list(range(1, 129))


DEADLINE = [None]     # epoch seconds after which no further obligation is started (run budget); set by run()
POOL = [None]         # solver processes of the to_fixed_helper family


def out_of_time():
    return DEADLINE[0] is not None and time.time() > DEADLINE[0]


def run(prop, tier, seed, workdir, log, families=("mul128", "widen"), deadline=None, pool=None):
    """returns dict(results=[...], violations=[replay paths], inconclusive=[(name, why)], functions=[...], solver_s=float)"""
    res = {"results": [], "violations": [], "inconclusive": [], "functions": [], "solver_s": 0.0, "queries": 0, "samples": [], "skipped": []}
    DEADLINE[0] = deadline
    POOL[0] = pool
    try:
        path, dt = dump_mir(workdir)
        log("engine M: MIR dumped in %.0fs (%d bytes)" % (dt, os.path.getsize(path)))
        text = open(path).read()
        funcs = mir.parse(text, want=lambda n: n.startswith("arith::"))
    except Exception as e:  # noqa: BLE001
        res["inconclusive"].append(("engineM", "MIR dump/parse failed: %s" % str(e)[:300]))
        return res
    called = set()
    if "tofixed" in families:
        try:
            run_tofixed(prop, tier, seed, workdir, log, mir.parse(text, want=lambda n: n.startswith("int_helper::")), res, called)
        except Exception as e:  # noqa: BLE001
            res["inconclusive"].append(("engineM_tofixed", "failed: %s" % str(e)[:300]))
    for ty in (("u128", "i128") if "mul128" in families else ()):
        cands = []   # (f, a, b, origin)
        state = {"reproduced": False, "replayed": 0}

        def try_candidate(f, a, b, origin):
            """native replay of one operand pair; records the violation if it reproduces"""
            if state["reproduced"] or state["replayed"] >= 6:
                return state["reproduced"]
            state["replayed"] += 1
            out, want = native_replay(workdir, ty, f, a, b)
            rep = any(v[0] for v in out.values())
            log("engine M: candidate %s f=%d a=%d b=%d (%s): native %s" % (ty, f, a, b, origin[:80], {k: v[0] for k, v in out.items()}))
            if rep:
                state["reproduced"] = True
                rdir = os.path.join(core.VERIF, "replays", prop)
                os.makedirs(rdir, exist_ok=True)
                rpath = os.path.join(rdir, "m_mul_%s_f%d-%s.json" % (ty, f, core.sha("%d,%d" % (a, b))))
                json.dump({"engine": "mir-smt", "property": prop, "type": ty, "frac_nbits": f, "a": str(a), "b": str(b),
                           "expected": [str(want[0]), want[1]], "origin": origin,
                           "native": {k: {"reproduced": v[0], "message": v[1]} for k, v in out.items()}}, open(rpath, "w"), indent=1)
                res["violations"].append(os.path.relpath(rpath, core.VERIF))
            return rep

        # --- translator validation on concrete vectors (also a cheap counterexample source)
        try:
            n, bad = mulcheck.validate_translator(funcs, ty, seed + 7, n=150)
            log("engine M: %s translator validation on %d concrete vectors: %d mismatches" % (ty, n, len(bad)))
            for (x, y, f, got, want, panics) in bad[:3]:
                cands.append((f, x, y, "concrete"))
                try_candidate(f, x, y, "concrete execution of the MIR disagrees with exact arithmetic (got %s, want %s, panics %s)" % (got, want, panics))
        except mir.Unsupported as e:
            res["inconclusive"].append(("engineM_%s_validation" % ty, "unsupported MIR construct: %s" % e))
            continue
        def propagate(ty_, fs):
            """A refuted internal obligation (e.g. "the 256-bit product is exact") is a violation of the property only if it
            propagates to the returned value or flag: search an operand pair with the exact (non-linear) encoding of the WHOLE
            function for a spread of fractional-bit counts (the refuted ones and the extremes), and replay it natively."""
            pick = []
            for cand_f in (128, 127, 96, 65, 64, fs[-1], fs[len(fs) // 2], fs[0], 1):
                if cand_f not in pick:
                    pick.append(cand_f)
            for f_ in pick[:6]:
                if state["reproduced"]:
                    break
                try:
                    ctx_e, q_e, _c = mulcheck.build(funcs, ty_, f_, exact=True)
                    for solver in ("cvc5", "z3-new"):
                        oe, dte = mulcheck.run_solver(mulcheck.smt_script(ctx_e, q_e, models=True), solver, 20000)
                        res["solver_s"] += dte
                        ae, me = mulcheck.parse_answers(oe)
                        for aa_, mm_ in zip(ae, me):
                            if aa_ == "sat" and mm_ and len(mm_) == 2 and try_candidate(f_, mm_[0], mm_[1], "solver model, exact product, %s" % solver):
                                break
                        if state["reproduced"]:
                            break
                except (mir.Unsupported, subprocess.TimeoutExpired):
                    continue

        nbad = 0
        for f in fracs(tier, seed):
            name = "m_mul_%s_f%d" % (ty, f)
            if out_of_time():
                res["skipped"].append(name)
                continue
            if state["reproduced"] or nbad >= 10:
                # a natively reproduced violation (or ten refuted/undecided obligations) is enough: the remaining counts are not run
                res["results"].append({"name": name, "verdict": "skipped", "why": "not run after earlier refutations for this type"})
                continue
            if nbad == 4 and not state.get("searched"):
                state["searched"] = True
                propagate(ty, [int(r["name"].rsplit("_f", 1)[1]) for r in res["results"] if r["verdict"] == "refuted" and ("_%s_" % ty) in r["name"]] or [f])
                if state["reproduced"]:
                    continue
            try:
                t0 = time.time()
                ctx_a, q_a, ca = mulcheck.build_stage_a(funcs, ty, f)
                ctx_b, q_b, cb = mulcheck.build_stage_b(funcs, ty, f)
                called.update(ca)
                called.update(cb)
                out_a, _ = mulcheck.run_solver(mulcheck.smt_script(ctx_a, q_a, models=True), "cvc5", 20000)
                ans_a, mod_a = mulcheck.parse_answers(out_a)
                sb = mulcheck.smt_script(ctx_b, q_b, models=True, bv=True)
                if sb is None:
                    sb = mulcheck.smt_script(ctx_b, q_b, models=True)
                out_b, _ = mulcheck.run_solver(sb, "cvc5", 20000)
                ans_b, mod_b = mulcheck.parse_answers(out_b)
                # cross-check the bit-vector stage with z3 (the integer stage is out of z3's reach: recorded as such)
                out_z, _ = mulcheck.run_solver(sb, "/usr/bin/z3", 20000)
                ans_z, _mz = mulcheck.parse_answers(out_z)
                # vacuity witnesses: a goal that is false must be refutable on the same declarations
                wq = [("witness", [], mir.B(smt="false", bv="false"))]
                outw, _ = mulcheck.run_solver(mulcheck.smt_script(ctx_a, wq), "cvc5", 20000)
                answ, _m = mulcheck.parse_answers(outw)
                dt = time.time() - t0
                res["solver_s"] += dt
                res["queries"] += len(q_a) + 2 * len(q_b) + 1
                verdict = "ok"
                why = ""
                if len(ans_a) != len(q_a) or len(ans_b) != len(q_b) or answ != ["sat"]:
                    verdict, why = "inconclusive", "solver output not understood / vacuity witness failed (%s %s %s)" % (ans_a, ans_b, answ)
                elif ans_z and len(ans_z) == len(ans_b) and any((x in ("sat", "unsat")) and (y in ("sat", "unsat")) and x != y for x, y in zip(ans_b, ans_z)):
                    verdict, why = "inconclusive", "cvc5 and z3 disagree on the bit-vector stage: %s vs %s" % (ans_b, ans_z)
                else:
                    for (q, a_, m_) in list(zip(q_a, ans_a, mod_a)) + list(zip(q_b, ans_b, mod_b)):
                        if a_ == "unsat":
                            continue
                        if a_ == "sat":
                            verdict = "refuted"
                            why = q[0]
                            cands.append((f, None, None, "refuted"))
                            break
                        verdict, why = "inconclusive", "%s: %s" % (q[0], a_)
                        break
                res["results"].append({"name": name, "verdict": verdict, "why": why, "queries": len(q_a) + len(q_b), "solver_s": round(dt, 2)})
                if verdict != "ok":
                    nbad += 1
                if len(res["samples"]) < 3 or verdict != "ok":
                    res["samples"].append({"obligation": name, "type": ty, "frac_nbits": f, "queries": [q[0] for q in q_a + q_b][:6], "verdict": verdict,
                                           "answers": {"stage_a_cvc5": ans_a, "stage_b_cvc5": ans_b, "stage_b_z3": ans_z}, "solver_s": round(dt, 2)})
                if verdict == "inconclusive":
                    res["inconclusive"].append((name, why))
            except mir.Unsupported as e:
                res["results"].append({"name": name, "verdict": "inconclusive", "why": "unsupported MIR construct: %s" % e})
                res["inconclusive"].append((name, "unsupported MIR construct: %s" % e))
            except subprocess.TimeoutExpired:
                res["results"].append({"name": name, "verdict": "inconclusive", "why": "solver time-out"})
                res["inconclusive"].append((name, "solver time-out"))
        refuted = [r for r in res["results"] if r["verdict"] == "refuted" and ("_%s_" % ty) in r["name"]]
        if refuted and not state["reproduced"]:
            propagate(ty, sorted(int(r["name"].rsplit("_f", 1)[1]) for r in refuted))
        if refuted and not state["reproduced"]:
            res["inconclusive"].append(("m_mul_%s" % ty, "solver refuted %d obligation(s) (%s) but no operand pair reproduced natively" % (len(refuted), refuted[0]["why"])))
        elif not refuted and cands and not state["reproduced"]:
            res["inconclusive"].append(("m_mul_%s" % ty, "concrete MIR execution disagreed with the specification but did not reproduce natively"))
    # ---------------- widening kernels (u8..u64, i8..i64): every fractional-bit count, all operands
    from vm import widen
    for ty in (("u8", "i8", "u16", "i16", "u32", "i32", "u64", "i64", "u128", "i128") if "widen" in families else ()):
        w = mir.INT_TYPES[ty][1]
        state = {"reproduced": {}, "replayed": 0}

        def try_w(op, f, a, b, origin):
            if state["reproduced"].get(op) or state["replayed"] >= 6 or (op == "div" and b == 0):
                return bool(state["reproduced"].get(op))
            lo, hi = mir.ty_range(ty)
            if not (lo <= a <= hi and lo <= b <= hi):
                return False
            state["replayed"] += 1
            out, want = native_replay(workdir, ty, f, a, b, op)
            rep = any(v[0] for v in out.values())
            log("engine M: candidate %s %s f=%d a=%d b=%d (%s): native %s" % (op, ty, f, a, b, origin[:70], {k: v[0] for k, v in out.items()}))
            if rep:
                state["reproduced"][op] = True
                rdir = os.path.join(core.VERIF, "replays", prop)
                os.makedirs(rdir, exist_ok=True)
                rpath = os.path.join(rdir, "m_%s_%s_f%d-%s.json" % (op, ty, f, core.sha("%d,%d" % (a, b))))
                json.dump({"engine": "mir-smt", "op": op, "property": prop, "type": ty, "frac_nbits": f, "a": str(a), "b": str(b),
                           "expected": [str(want[0]), want[1]], "origin": origin,
                           "native": {k: {"reproduced": v[0], "message": v[1]} for k, v in out.items()}}, open(rpath, "w"), indent=1)
                res["violations"].append(os.path.relpath(rpath, core.VERIF))
            return rep
        if w < 128:
            try:
                n, bad = widen.validate_translator(funcs, ty, seed + 11)
                log("engine M: %s widening kernels: translator validation on %d concrete runs: %d mismatches" % (ty, n, len(bad)))
                for (op, x, y, f, got, want, panics) in bad[:4]:
                    try_w(op, f, x, y, "concrete execution of the MIR disagrees with exact arithmetic (got %s, want %s, panics %s)" % (got, want, panics))
            except mir.Unsupported as e:
                res["inconclusive"].append(("engineM_%s_validation" % ty, "unsupported MIR construct: %s" % e))
                continue
        # 128-bit: the product is the two-stage obligation above; the quotient's glue around the abstracted Knuth-D routine
        kernels = (("mul", widen.build_mul), ("div", widen.build_div)) if w < 128 else (("div", widen.build_div128),)
        for op, builder in kernels:
            refuted_n = 0
            for f in range(0, w + 1):
                name = "m_%s_%s_f%d" % (op, ty, f)
                if out_of_time():
                    res["skipped"].append(name)
                    continue
                try:
                    t0 = time.time()
                    ctx, qs, cl = builder(funcs, ty, f)
                    called.update(cl)
                    sc = mulcheck.smt_script(ctx, qs, models=True, bv=True)
                    rendering = "bv"
                    if sc is None:
                        sc = mulcheck.smt_script(ctx, qs, models=True)
                        rendering = "int"
                    out1, _ = mulcheck.run_solver(sc, "cvc5", 20000)
                    ans, mods = mulcheck.parse_answers(out1)
                    ans_z = []
                    if f in (0, 1, w // 2, w - 1, w):
                        outz, _ = mulcheck.run_solver(sc, "/usr/bin/z3", 20000)
                        ans_z, _mz = mulcheck.parse_answers(outz)
                    dt = time.time() - t0
                    res["solver_s"] += dt
                    res["queries"] += len(qs) * (2 if ans_z else 1)
                    verdict, why = "ok", ""
                    if len(ans) != len(qs):
                        verdict, why = "inconclusive", "solver output not understood: %s" % out1[-200:]
                    elif ans_z and len(ans_z) == len(ans) and any(x in ("sat", "unsat") and y in ("sat", "unsat") and x != y for x, y in zip(ans, ans_z)):
                        verdict, why = "inconclusive", "cvc5 and z3 disagree: %s vs %s" % (ans, ans_z)
                    else:
                        for (q, a_, m_) in zip(qs, ans, mods):
                            if a_ == "unsat":
                                continue
                            if a_ == "sat":
                                verdict, why = "refuted", q[0]
                                refuted_n += 1
                                if m_:
                                    try_w(op, f, m_[0], m_[1], "solver model for '%s'" % q[0])
                                continue
                            verdict, why = "inconclusive", "%s: %s" % (q[0], a_)
                            break
                    res["results"].append({"name": name, "verdict": verdict, "why": why, "queries": len(qs), "rendering": rendering, "solver_s": round(dt, 2)})
                    if verdict != "ok" and len(res["samples"]) < 8:
                        res["samples"].append({"obligation": name, "type": ty, "frac_nbits": f, "queries": [q[0] for q in qs][:6], "verdict": verdict, "answers": ans})
                    if verdict == "inconclusive":
                        res["inconclusive"].append((name, why))
                except mir.Unsupported as e:
                    res["results"].append({"name": name, "verdict": "inconclusive", "why": "unsupported MIR construct: %s" % e})
                    res["inconclusive"].append((name, "unsupported MIR construct: %s" % e))
                except subprocess.TimeoutExpired:
                    res["results"].append({"name": name, "verdict": "inconclusive", "why": "solver time-out"})
                    res["inconclusive"].append((name, "solver time-out"))
            if refuted_n and not state["reproduced"].get(op):
                # abstract quotient/product models can be spurious: try structured operands on the refuted counts
                lo, hi = mir.ty_range(ty)
                for r in [r for r in res["results"] if r["verdict"] == "refuted" and r["name"].startswith("m_%s_%s_f" % (op, ty))][:3]:
                    f = int(r["name"].rsplit("_f", 1)[1])
                    for (x, y) in ((lo, -1 if lo < 0 else 1), (hi, hi), (lo, lo), (hi, 1), (lo, 1), (1, hi), (hi, 2), (lo + 1, -1 if lo < 0 else 3)):
                        if try_w(op, f, x, y, "structured operands for refuted obligation '%s'" % r["why"]):
                            break
                    if state["reproduced"].get(op):
                        break
                if not state["reproduced"].get(op):
                    res["inconclusive"].append(("m_%s_%s" % (op, ty), "solver refuted %d obligation(s) but no operand pair reproduced natively" % refuted_n))
    res["functions"] = sorted(called)
    return res


CONV_SRC = """
#[test]
fn replay() {
    use substrate_fixed::{types::extra::{U%d, U%d}, traits::Fixed, %s, %s};
    type S = %s<U%d>;
    type D = %s<U%d>;
    let x = S::from_bits(%s);
    let (v, o): (D, bool) = x.overflowing_to_num::<D>();
    assert_eq!((v.to_bits(), o), (%s, %s), "overflowing_to_num is floor(v * 2^dst_frac) mod 2^W with the exact flag");
    let y = D::from_bits(%s);
    // comparison through the same kernel: x ? y must order the exact values
    assert_eq!(x.partial_cmp(&y), Some(%s), "partial_cmp orders the exact values");
    assert_eq!(y.partial_cmp(&x), Some(%s), "partial_cmp (reversed) orders the exact values");
}
"""


def conv_replay(workdir, ty, v, sf, dty, df):
    """conversion S -> D and comparison S ? D natively, both profiles, against exact arithmetic"""
    from fractions import Fraction
    ss, sw = mir.INT_TYPES[ty]
    ds, dw = mir.INT_TYPES[dty]
    n = sf - df
    e = (v << (-n)) if n <= 0 else (v >> n)
    lo, hi = mir.ty_range(dty)
    ovf = not (lo <= e <= hi)
    wv = e & ((1 << dw) - 1)
    if ds and wv >> (dw - 1):
        wv -= 1 << dw
    # a comparison partner: the destination value nearest below the source value (or its minimum)
    yb = min(max(e, lo), hi)
    xs, ys = Fraction(v, 1 << sf), Fraction(yb, 1 << df)
    order = "core::cmp::Ordering::Less" if xs < ys else ("core::cmp::Ordering::Greater" if xs > ys else "core::cmp::Ordering::Equal")
    rorder = {"core::cmp::Ordering::Less": "core::cmp::Ordering::Greater", "core::cmp::Ordering::Greater": "core::cmp::Ordering::Less"}.get(order, order)
    d = os.path.join(workdir, "mreplay")
    os.makedirs(os.path.join(d, "src"), exist_ok=True)
    open(os.path.join(d, "Cargo.toml"), "w").write(REPLAY_TOML % core.REPO)
    lock = os.path.join(core.REPO, "Cargo.lock")
    if os.path.exists(lock):
        shutil.copy(lock, os.path.join(d, "Cargo.lock"))

    def lit(x, t):
        s_, w_ = mir.INT_TYPES[t]
        if s_ and x == -(1 << (w_ - 1)):
            return "%s::MIN" % t
        return ("%d%s" % (x, t)) if x >= 0 else ("(%d%s)" % (x, t))
    fs = "Fixed%s%d" % ("I" if ss else "U", sw)
    fd = "Fixed%s%d" % ("I" if ds else "U", dw)
    open(os.path.join(d, "src", "lib.rs"), "w").write(CONV_SRC % (sf, df, fs, fd, fs, sf, fd, df, lit(v, ty), lit(wv, dty), "true" if ovf else "false",
                                                                  lit(yb, dty), order, rorder))
    out = {}
    for prof in ("dev", "release"):
        env = core.playback_env(prof == "release")
        env.pop("RUSTFLAGS", None)
        env["CARGO_TARGET_DIR"] = os.path.join(workdir, "mreplay_target_" + prof)
        p = subprocess.run(["cargo", "test", "--offline", "--lib"], cwd=d, env=env, capture_output=True, text=True, timeout=900)
        so = p.stdout + p.stderr
        m = re.search(r"test result: (\w+)\. (\d+) passed; (\d+) failed", so)
        if not m:
            out[prof] = (None, so[-600:])
        else:
            msg = re.search(r"panicked at ([^\n]*)\n([^\n]*)", so)
            out[prof] = (int(m.group(3)) > 0, (msg.group(1) + " " + msg.group(2)) if msg else "")
    return out


def tofixed_layouts(ty, tier, seed):
    """(src_frac, dst_frac, dst_int) triples: the kernel depends on them only through src_frac - dst_frac and dst_frac + dst_int"""
    w = mir.INT_TYPES[ty][1]
    rnd = random.Random(seed * 31 + w + (7 if ty[0] == "i" else 0))
    out = set()
    for db in (8, 16, 32, 64, 128):
        if tier == "thorough":
            for n in range(-db, w + 1):          # every reachable need_to_shr once (+ a second realisation)
                for _ in range(2):
                    sf = rnd.randrange(max(0, n), min(w, n + db) + 1)
                    out.add((sf, sf - n, db - (sf - n)))
        else:
            for df in (0, db // 2, db):
                for sf in (0, 1, w // 2, w - 1, w):
                    out.add((sf, df, db - df))
            for _ in range(3):
                df = rnd.randrange(0, db + 1)
                out.add((rnd.randrange(0, w + 1), df, db - df))
    # source scales outside 0..W occur through the float path (src_frac = prec - 1 - exp): the catch-all arms of the match
    for sf in (-1000, -200, -129, -128, -127, -1, w + 1, 127, 128, 129, 255, 256, 1100):
        out.add((sf, 0, 32))
        out.add((sf, 64, 64))
    return sorted(out)


def run_tofixed(prop, tier, seed, workdir, log, funcs, res, called):
    from concurrent.futures import ThreadPoolExecutor
    from vm import tofixed
    types = ["u8", "i8", "u16", "i16", "u32", "i32", "u64", "i64", "u128", "i128"]
    # translator validation
    rnd = random.Random(seed + 5)
    nval = nbad = 0
    for ty in types:
        lo, hi = mir.ty_range(ty)
        w = mir.INT_TYPES[ty][1]
        for _ in range(120):
            v = rnd.choice([0, 1, hi, lo, lo + 1, -1 if lo < 0 else 2, rnd.randrange(lo, hi + 1), rnd.randrange(lo, hi + 1) >> rnd.randrange(0, w)])
            sf = rnd.randrange(0, w + 1)
            wd = rnd.choice([8, 16, 32, 64, 128])
            df = rnd.randrange(0, wd + 1)
            got, p = tofixed.concrete(funcs, ty, v, sf, df, wd - df)
            nval += 1
            if got != tofixed.spec_py(v, ty, sf, df, wd - df) or p:
                nbad += 1
    log("engine M: to_fixed_helper translator validation on %d concrete runs: %d mismatches" % (nval, nbad))
    work = [(ty, lay) for ty in types for lay in tofixed_layouts(ty, tier, seed)]

    def one(item):
        ty, (sf, df, di) = item
        name = "m_tofixed_%s_s%d_d%d_%d" % (ty, sf, df, di)
        name = name.replace("-", "m")
        if out_of_time():
            return name, ty, (sf, df, di), [], [], [], [], [], 0.0, "SKIPPED"
        try:
            t0 = time.time()
            ctx, qs, cl = tofixed.build(funcs, ty, sf, df, di)
            # the bit-vector rendering is 400 bits wide: scales that shift further left need the integer rendering
            use_bv = (df - sf) + mir.INT_TYPES[ty][1] < mir.WBV - 20
            sc = (mulcheck.smt_script(ctx, qs, models=True, bv=True) if use_bv else None) or mulcheck.smt_script(ctx, qs, models=True)
            out1, _ = mulcheck.run_solver(sc, "cvc5", 60000)
            ans, mods = mulcheck.parse_answers(out1)
            ans_z = []
            if (sf, df) in ((0, 0), (mir.INT_TYPES[ty][1], 0)):
                outz, _ = mulcheck.run_solver(sc, "/usr/bin/z3", 60000)
                ans_z, _m = mulcheck.parse_answers(outz)
            return name, ty, (sf, df, di), qs, ans, mods, ans_z, cl, time.time() - t0, None
        except mir.Unsupported as e:
            return name, ty, (sf, df, di), [], [], [], [], [], 0.0, "unsupported MIR construct: %s" % e
        except subprocess.TimeoutExpired:
            return name, ty, (sf, df, di), [], [], [], [], [], 0.0, "solver time-out"
    cands = []
    with ThreadPoolExecutor(max_workers=POOL[0] or max(2, core.NCPU - 2)) as ex:
        for (name, ty, lay, qs, ans, mods, ans_z, cl, dt, err) in ex.map(one, work):
            if err == "SKIPPED":
                res["skipped"].append(name)
                continue
            called.update(cl)
            res["solver_s"] += dt
            res["queries"] += len(qs) * (2 if ans_z else 1)
            verdict, why = "ok", ""
            if err:
                verdict, why = "inconclusive", err
            elif len(ans) != len(qs):
                verdict, why = "inconclusive", "solver output not understood"
            elif ans_z and len(ans_z) == len(ans) and any(x in ("sat", "unsat") and y in ("sat", "unsat") and x != y for x, y in zip(ans, ans_z)):
                verdict, why = "inconclusive", "cvc5 and z3 disagree: %s vs %s" % (ans, ans_z)
            else:
                for (q, a_, m_) in zip(qs, ans, mods):
                    if a_ == "unsat":
                        continue
                    if a_ == "sat":
                        verdict, why = "refuted", q[0]
                        if m_:
                            cands.append((ty, lay, m_[0], q[0]))
                        break
                    verdict, why = "inconclusive", "%s: %s" % (q[0], a_)
                    break
            res["results"].append({"name": name, "verdict": verdict, "why": why, "queries": len(qs), "solver_s": round(dt, 2)})
            if verdict == "inconclusive":
                res["inconclusive"].append((name, why))
            if (verdict != "ok" and len(res["samples"]) < 8) or len(res["samples"]) < 2:
                res["samples"].append({"obligation": name, "type": ty, "layout(src_frac,dst_frac,dst_int)": lay, "queries": [q[0] for q in qs][:8], "verdict": verdict, "answers": ans})
    refuted = [r for r in res["results"] if r["verdict"] == "refuted" and r["name"].startswith("m_tofixed_")]
    reproduced = False
    tried = 0
    for (ty, (sf, df, di), v, qname) in cands:
        w = mir.INT_TYPES[ty][1]
        if not (0 <= sf <= w) or tried >= 4:
            continue
        dw = df + di
        for dty in (("u%d" % dw), ("i%d" % dw)):
            tried += 1
            out = conv_replay(workdir, ty, v, sf, dty, df)
            rep = any(x[0] for x in out.values())
            log("engine M: candidate to_fixed_helper %s v=%d src_frac=%d -> %s dst_frac=%d (%s): native %s" % (ty, v, sf, dty, df, qname[:50], {k: x[0] for k, x in out.items()}))
            if rep:
                reproduced = True
                rdir = os.path.join(core.VERIF, "replays", prop)
                os.makedirs(rdir, exist_ok=True)
                rpath = os.path.join(rdir, "m_tofixed_%s_%d_%s_%d-%s.json" % (ty, sf, dty, df, core.sha(str(v))))
                json.dump({"engine": "mir-smt", "op": "conv", "property": prop, "type": ty, "v": str(v), "src_frac": sf, "dst_type": dty, "dst_frac": df,
                           "origin": "solver model for '%s'" % qname, "native": {k: {"reproduced": x[0], "message": x[1]} for k, x in out.items()}},
                          open(rpath, "w"), indent=1)
                res["violations"].append(os.path.relpath(rpath, core.VERIF))
                break
        if reproduced:
            break
    if refuted and not reproduced:
        res["inconclusive"].append(("m_tofixed", "solver refuted %d obligation(s) (%s) but no conversion/comparison reproduced natively" % (len(refuted), refuted[0]["why"])))
    log("engine M: to_fixed_helper %d obligations, %d refuted" % (len(work), len(refuted)))


def replay(rp, log):
    ws = os.path.join(core.WORK, "mreplay-%d" % os.getpid())
    os.makedirs(ws, exist_ok=True)
    if rp.get("op") == "conv":
        try:
            out = conv_replay(ws, rp["type"], int(rp["v"]), int(rp["src_frac"]), rp["dst_type"], int(rp["dst_frac"]))
            rep = False
            for prof, (failed, msg) in out.items():
                log("replay profile=%s reproduced=%s %s" % (prof, failed, msg))
                rep = rep or bool(failed)
            return rep
        finally:
            shutil.rmtree(ws, ignore_errors=True)
    try:
        out, _want = native_replay(ws, rp["type"], int(rp["frac_nbits"]), int(rp["a"]), int(rp["b"]), rp.get("op", "mul"))
        rep = False
        for prof, (failed, msg) in out.items():
            log("replay profile=%s reproduced=%s %s" % (prof, failed, msg))
            rep = rep or bool(failed)
        return rep
    finally:
        shutil.rmtree(ws, ignore_errors=True)
