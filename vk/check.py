#!/usr/bin/env python3
"""Entry point of every registered check.

  python3 vk/check.py C03 --tier quick
  python3 vk/check.py replay replays/C03/<file>.json

Exit 0: every obligation discharged by the solver (open known findings are printed as
KNOWN-FINDING lines); exit 1: a counterexample that reproduces natively (VIOLATION line);
exit 2: inconclusive (solver error, vacuous harness, non-reproducing model, or more than a fifth of the obligations
not explored within the time/memory limit).  An obligation that hits the time/memory limit of the run is listed as
UNDECIDED, counted as not explored in the evidence and never as discharged; it does not by itself change the exit code
(exit 0 = the property held on everything explored)."""
import argparse
import importlib
import json
import os
import re
import sys
import time

sys.path.insert(0, os.path.dirname(os.path.abspath(__file__)))
import core  # noqa: E402
from core import Job  # noqa: E402,F401


def log(*a):
    print(*a, flush=True)


def fail_desc(res, allow):
    """Failing checks of a harness that are not expected."""
    out = []
    for d, loc in res.failed:
        if any(re.search(p, d + " @ " + loc) for p in allow):
            continue
        out.append((d, loc))
    return out


def do_replay(path):
    rp = json.load(open(path))
    if rp.get("engine") == "mir-smt":
        import enginem
        if enginem.replay(rp, log):
            log("VIOLATION property=%s replay=%s" % (rp["property"], path))
            return 1
        log("not reproduced")
        return 0
    ws = core.Workspace("replay-%d" % os.getpid())
    try:
        gen = os.path.join(ws.hk, "src", "gen_%s.rs" % rp["feature"])
        open(gen, "w").write(rp["gen"])
        for fn, src in (rp.get("extra_files") or {}).items():
            open(os.path.join(ws.hk, "src", fn), "w").write(src)
        out = core.native_replay(ws.hk, rp["feature"], None, rp["test_name"], rp["test_src"],
                                 features=rp.get("features"), genfile=rp.get("genfile"))
        rep = False
        for prof, (failed, msg) in out.items():
            log("replay profile=%s reproduced=%s %s" % (prof, failed, msg))
            rep = rep or bool(failed)
        if rep:
            log("VIOLATION property=%s replay=%s" % (rp["property"], path))
            return 1
        log("not reproduced")
        return 0
    finally:
        ws.cleanup()


def main():
    ap = argparse.ArgumentParser()
    ap.add_argument("prop")
    ap.add_argument("path", nargs="?")
    ap.add_argument("--tier", default=os.environ.get("VERIF_TIER", "quick"))
    ap.add_argument("--only", default=None, help="regex: run only matching harnesses (debugging)")
    ap.add_argument("--keep", action="store_true", help="keep the work directory")
    ap.add_argument("--workers", type=int, default=None)
    ap.add_argument("--list", action="store_true")
    ap.add_argument("--no-evidence", action="store_true")
    ap.add_argument("--build-only", action="store_true", help="generate and compile the harness crate for this tier, run nothing")
    args = ap.parse_args()
    if args.prop == "replay":
        sys.exit(do_replay(args.path))

    prop = args.prop.upper()
    if prop in ("C13", "C14", "C15", "C16"):
        # the enclosure tables need mpmath (interval arithmetic), which lives in the tooling venv
        try:
            import mpmath  # noqa: F401
        except ImportError:
            import shutil
            if shutil.which("python3-vt") and not os.environ.get("VERIF_REEXEC"):
                os.environ["VERIF_REEXEC"] = "1"
                os.execvp("python3-vt", ["python3-vt"] + sys.argv)
            log("INCONCLUSIVE: mpmath is not importable and python3-vt is not on PATH")
            sys.exit(2)
    tier = args.tier if args.tier in ("quick", "thorough") else "quick"
    try:
        seed = int(os.environ.get("VERIF_SEED", "0"))
    except ValueError:
        seed = 0
    t0 = time.time()
    # run budget: the quick check is stopped from outside after 900 s, so it stops itself before that and reports what it
    # did not get to as not explored; override with VERIF_BUDGET_S
    try:
        budget = float(os.environ.get("VERIF_BUDGET_S", "800" if tier == "quick" else "7200"))
    except ValueError:
        budget = 800.0
    reserve = 230.0 if tier == "quick" else 900.0     # native replays (first one compiles the crate natively) and evidence
    deadline = t0 + budget - reserve
    mod = importlib.import_module("props." + prop.lower())
    kfs = core.open_findings(prop)
    kf_ids = [k["id"] for k in kfs]
    plan = mod.plan(tier, seed, kf_ids)
    feature = plan["feature"]
    jobs = plan["jobs"]
    if args.only:
        jobs = [j for j in jobs if re.search(args.only, j.name)]
    if args.list:
        for j in jobs:
            log(j.name, "|", j.desc)
        return 0
    features = [feature] + ["kf_" + k for k in kf_ids] + plan.get("features", [])
    log("== %s tier=%s seed=%d obligations=%d open-known-findings=%s" % (
        prop, tier, seed, len(jobs), kf_ids))

    ws = core.Workspace("%s-%s-%d" % (prop, tier, os.getpid()))
    exit_code = 0
    violations = 0
    inconclusive = []
    undecided = []
    vacuous = []
    discharged = []
    kf_seen = []
    vio_lines = []
    results = []
    em_future = None
    try:
        ws.write_gen(feature, jobs, plan.get("extra_gen", ""))
        for extra_feature, extra_src in plan.get("extra_files", {}).items():
            open(os.path.join(ws.hk, "src", extra_feature), "w").write(extra_src)
        rc, blog, bdt = ws.build(features)
        if rc != 0:
            txt = open(blog, errors="replace").read()
            log("BUILD FAILED (inconclusive): harness crate does not compile against %s" % core.REPO)
            log(txt[-4000:])
            exit_code = 2
            inconclusive.append(("_build", "harness crate failed to build"))
        else:
            log("built harness crate in %.1fs" % bdt)
            if args.build_only:
                full = core.resolve_harness_names(ws, [])
                missing = [j.name for j in jobs if j.name not in full]
                log("build-only: %d harnesses compiled, %d planned names missing: %s" % (len(full), len(missing), missing[:5]))
                ws.cleanup()
                sys.exit(0 if not missing else 2)
            em_future = None
            want_em = (plan.get("engine_m") and not args.only) or (plan.get("engine_m") and args.only == "enginem")
            nwork = args.workers or plan.get("workers")
            if want_em:
                # the MIR -> SMT obligations run next to the Kani pool (their main loop is one solver process)
                import concurrent.futures as _cf
                import enginem
                _ex = _cf.ThreadPoolExecutor(max_workers=1)
                em_future = _ex.submit(enginem.run, prop, tier, seed, ws.dir, log, plan["engine_m"], deadline, 5)
                nwork = max(2, (nwork or (core.NCPU - 2)) - (5 if "tofixed" in plan["engine_m"] else 2))
            results = core.run_jobs(ws, features, [j for j in jobs if args.only != "enginem"], workers=nwork, deadline=deadline,
                                    soft_deadline=t0 + 0.45 * budget)

        replayed = 0
        for r in results:
            j = r.job
            if j.kf:
                # witness of a known finding: expected to be refuted
                unexpected = fail_desc(r, j.allow)
                if r.status == "fail":
                    kf = [k for k in core.load_known_findings() if k["id"] == j.kf][0]
                    log("KNOWN-FINDING: property=%s %s [%s]" % (prop, kf["what"], j.kf))
                    kf_seen.append(j.kf)
                elif r.status == "ok":
                    log("note: known finding %s no longer reproduces on this tree" % j.kf)
                elif r.status == "timeout" or "out of memory" in r.note:
                    # the witness was not re-decided within this run's budget: the finding stays listed (the file is never
                    # changed at run time) and its region stays carved out
                    kf = [k for k in core.load_known_findings() if k["id"] == j.kf][0]
                    log("KNOWN-FINDING: property=%s %s [%s] (witness not re-run within the run budget)" % (prop, kf["what"], j.kf))
                    kf_seen.append(j.kf)
                    undecided.append((j.name, r.status + " " + r.note))
                else:
                    inconclusive.append((j.name, r.status + " " + r.note))
                continue
            bad = fail_desc(r, j.allow)
            if r.status == "fail" and not r.failed:
                inconclusive.append((j.name, "FAILED verdict without a parsed failing check"))
                continue
            if r.status in ("ok", "fail") and not bad and j.expect_fail:
                lacking = [p for p in j.expect_fail if not any(re.search(p, d + " @ " + loc) for d, loc in r.failed)]
                if lacking:
                    # the documented panic did not happen: the call returned (or was unreachable)
                    bad = [("expected panic %s did not occur" % lacking, "")]
                    inconclusive.append((j.name, "documented panic %s not reachable" % lacking))
                    continue
            if r.status == "ok" or (r.status == "fail" and not bad):
                missing = [d for d, s in r.covers.items() if d.startswith("W:") and s != "SATISFIED"]
                if missing:
                    # the harness did not demonstrably reach its assertions for this instantiation: the obligation is NOT counted
                    # as discharged; it is listed, and the run is inconclusive only if this happens to more than a tenth of them
                    vacuous.append((j.name, "reachability witness not satisfied: %s" % missing))
                else:
                    discharged.append(r)
                continue
            if r.status in ("timeout", "error") and ("exceeded" in r.note or "out of memory" in r.note):
                # resource limit of this run: the obligation was NOT explored (listed, counted, never reported as discharged)
                undecided.append((j.name, r.status + " " + r.note))
                continue
            if r.status in ("timeout", "error", "unwind"):
                inconclusive.append((j.name, r.status + " " + r.note))
                continue
            # refuted: replay natively before reporting
            d0, loc0 = bad[0]
            if replayed >= (2 if tier == "quick" else 3) or (violations >= 1 and time.time() > deadline - 30):
                # enough reproduced evidence; remaining refutations are listed unreplayed
                inconclusive.append((j.name, "refuted (%s at %s); not replayed (cap)" % (d0, loc0)))
                continue
            if not r.playback:
                # the direct CBMC run carries no trace: obtain the concrete playback test from kani-driver
                core.playback_for(ws, features, r)
                bad = fail_desc(r, j.allow) or bad
                d0, loc0 = bad[0]
            pb = [p for p in r.playback if p[0] != "cover" and p[1] == d0] or \
                 [p for p in r.playback if p[0] != "cover"]
            if not pb and j.concrete is not None:
                # inputs fully determined by the harness (the solver's trace carries no free value): replay with those values
                tn = "kani_concrete_playback_%s_noinput" % j.name
                pb = [("", d0, tn, "#[test]\nfn %s() {\n    let concrete_vals: Vec<Vec<u8>> = %s;\n    kani::concrete_playback_run(concrete_vals, %s);\n}" % (tn, j.concrete, j.name))]
            if not pb:
                # kani-driver sometimes prints the playback test of a cover witness only: those inputs are candidates too
                # (a candidate counts only if the native run fails)
                pb = [p for p in r.playback if p[0] == "cover"][:3]
            if not pb:
                inconclusive.append((j.name, "refuted (%s) but no playback test emitted" % d0))
                continue
            replayed += 1
            for (_, cdesc, tname, tsrc) in pb[:3]:
                # checking profile first; the non-checking profile as well unless the run budget is nearly used up and the
                # counterexample has already reproduced
                out = core.native_replay(ws.hk, feature, None, tname, tsrc, features=features, genfile=j.genfile, profiles=("dev",))
                rep = {p: v for p, v in out.items()}
                if not (any(v[0] for v in rep.values()) and time.time() > deadline + 20):
                    out2 = core.native_replay(ws.hk, feature, None, tname, tsrc, features=features, genfile=j.genfile, profiles=("release",))
                    rep.update(out2)
                reproduced = any(v[0] for v in rep.values())
                if reproduced:
                    break
            rdir = os.path.join(core.VERIF, "replays", prop)
            os.makedirs(rdir, exist_ok=True)
            rpath = os.path.join(rdir, "%s-%s.json" % (j.name, core.sha(tsrc)))
            json.dump({
                "property": prop, "harness": j.name, "feature": feature, "features": features,
                "obligation": j.desc, "failed_check": d0, "location": loc0,
                "gen": plan.get("extra_gen", "") + j.code + "\n", "genfile": j.genfile,
                "extra_files": plan.get("extra_files", {}),
                "test_name": tname, "test_src": tsrc,
                "native": {p: {"reproduced": v[0], "message": v[1]} for p, v in rep.items()},
            }, open(rpath, "w"), indent=1)
            if reproduced:
                violations += 1
                profs = ",".join(p for p, v in rep.items() if v[0])
                log("refuted %s: %s (%s); reproduces natively in profile(s) %s" % (j.name, d0, loc0, profs))
                vio_lines.append("VIOLATION property=%s replay=%s" % (prop, os.path.relpath(rpath, core.VERIF)))
            else:
                inconclusive.append((j.name, "counterexample for '%s' did not reproduce natively: %s" % (d0, rep)))

        # ---------------- Engine M (MIR -> SMT) obligations of this property
        em = None
        if rc == 0 and not args.build_only and em_future is not None:
            em = em_future.result()
            for n in em.get("skipped", []):
                undecided.append((n, "exceeded run budget (not started)"))
            for (n, why) in em["inconclusive"]:
                if "unsupported MIR construct" in why or "MIR dump/parse failed" in why or why.startswith("failed:") or "expected exactly one" in why:
                    # the code left the subset the MIR executor understands (e.g. after a refactoring): these obligations are
                    # not explored by this engine; the Kani obligations of the same property still are
                    undecided.append((n, "engine M cannot encode this code: " + why[:200]))
                else:
                    inconclusive.append((n, why))
            for rp in em["violations"]:
                violations += 1
                vio_lines.append("VIOLATION property=%s replay=%s" % (prop, rp))
            okm = [r for r in em["results"] if r["verdict"] == "ok"]
            log("engine M: %d/%d obligations discharged, %d queries, %.0fs" % (len(okm), len(em["results"]), em["queries"], em["solver_s"]))
        for note in plan.get("inconclusive_notes", []):
            inconclusive.append(("_plan", note))
        for n, why in undecided:
            log("UNDECIDED (resource limit, not explored) %s: %s" % (n, why))
        for n, why in vacuous:
            log("NOT-COUNTED (reachability witness unsatisfied) %s: %s" % (n, why))
        if len(vacuous) * 10 > max(1, len(jobs)):
            inconclusive.append(("_vacuity", "%d of %d obligations have an unsatisfied reachability witness" % (len(vacuous), len(jobs))))
        hard = [u for u in undecided if "run budget" not in u[1] and "engine M cannot encode" not in u[1]]
        if hard and len(hard) * 5 > max(1, len(jobs)):
            inconclusive.append(("_resources", "%d of %d obligations hit their own time/memory limit" % (len(hard), len(jobs))))
        for n, why in inconclusive:
            log("INCONCLUSIVE %s: %s" % (n, why))
        for v in vio_lines:
            log(v)
        if violations:
            exit_code = 1
        elif inconclusive:
            exit_code = 2

        # ---------------- evidence
        wall = time.time() - t0
        samples = []
        for r in (discharged[:4] + [r for r in results if r.status != "ok"][:4]):
            samples.append({
                "harness": r.job.name, "obligation": r.job.desc, "instantiation": r.job.inst,
                "bound": r.job.bounds, "verdict": r.status, "checks": r.nchecks,
                "cover_witnesses": r.covers, "solver_s": r.solver_s,
                "failed": [d for d, _ in r.failed][:3],
            })
        nontrivial = len({r.job.name for r in discharged if r.nchecks > 0})
        coverage = {
            "evaluations": len(results),
            "distinct_nontrivial": nontrivial,
            "rule": "one evaluation = one CBMC/CaDiCaL query (Kani proof harness over symbolic inputs) on the crate "
                    "compiled from /repo's working tree; counted as distinct and non-trivial when the harness has a "
                    "distinct name (= distinct function/type/bound instantiation), the solver reported "
                    "VERIFICATION SUCCESSFUL over >0 generated checks with unwinding assertions on, and every "
                    "'W:' reachability witness (kani::cover!) of that harness was SATISFIED",
            "samples": samples,
            "obligations": len(jobs) + (len(em["results"]) + len(em.get("skipped", [])) if em else 0),
            "discharged": len(discharged) + (len([r for r in em["results"] if r["verdict"] == "ok"]) if em else 0),
            "inconclusive": len(inconclusive),
            "undecided_resource_limit": [n for n, _ in undecided],
            "not_counted_witness_unsatisfied": [n for n, _ in vacuous],
            "run_budget_s": budget,
            "known_findings_seen": kf_seen,
            "solver_s": round(sum(r.solver_s for r in results), 1),
            "checks_generated": sum(r.nchecks for r in results),
            "functions_encoded": plan.get("functions", []),
            "instantiations": sorted({r.job.inst for r in results if r.job.inst})[:600],
            "bounds": plan.get("bounds", ""),
            "outside_claim": plan.get("outside", []),
            "stubs": plan.get("stubs", []),
            "engine": "Kani 0.68.0 / CBMC 6.11.0 / CaDiCaL; playback = cargo kani playback (dev + checks-off profile)",
            "exhaustive": False,
        }
        if em:
            coverage["engine_m"] = {"obligations": len(em["results"]), "discharged": len([r for r in em["results"] if r["verdict"] == "ok"]),
                                    "queries": em["queries"], "solver_s": round(em["solver_s"], 1), "functions_encoded_from_mir": em["functions"],
                                    "results": em["results"][:300],
                                    "families": list(plan["engine_m"]),
                                    "bounds": "ALL values of the integer operands; one obligation per concrete fractional-bit count / layout "
                                              "triple (listed in results); 128-bit product: 64-bit limb products abstracted by shared integers with "
                                              "McCormick envelopes (stage A, cvc5 integers) + recombination/shift/flag in 400-bit bit-vectors "
                                              "(stage B, cvc5 and z3); widening kernels and to_fixed_helper: bit-vector rendering; primitive "
                                              "multiply/divide and wide_div.rs::div_rem_from abstracted (arbitrary result): trusted"}
            coverage["evaluations"] += em["queries"]
            coverage["distinct_nontrivial"] += len([r for r in em["results"] if r["verdict"] == "ok"])
            coverage["samples"] = coverage["samples"] + em["samples"][:4]
            coverage["solver_s"] = round(coverage["solver_s"] + em["solver_s"], 1)
        if not args.no_evidence and not args.only:
            core.write_evidence(prop, tier, seed, coverage, plan.get("assumptions", []), wall, violations)
        log("== %s: %d/%d discharged, %d not explored (resource limit), %d inconclusive, %d violation(s), %.0fs wall, solver %.0fs -> exit %d" % (
            prop, coverage["discharged"], coverage["obligations"], len(undecided), len(inconclusive), violations, wall,
            coverage["solver_s"], exit_code))
    finally:
        if args.keep or exit_code != 0:
            keep = os.path.join(core.VERIF, "logs", "%s-%s" % (prop, tier))
            ws.cleanup(keep_logs_to=keep)
        else:
            ws.cleanup()
    sys.exit(exit_code)


if __name__ == "__main__":
    main()
