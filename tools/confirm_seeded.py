#!/usr/bin/env python3
"""Confirms a seeded change in a scratch worktree of /repo (outside /repo and /verif):
patch applies; the 66 unit tests still pass with it; the demonstration fails with it and passes
without it.  Writes the outcome into seeded/<id>/meta.json under 'confirmed'."""
import json, os, shutil, subprocess, sys, time

VERIF = os.path.dirname(os.path.dirname(os.path.abspath(__file__)))


def run(cmd, cwd, env=None, timeout=1800):
    p = subprocess.run(cmd, cwd=cwd, shell=True, capture_output=True, text=True, env=env, timeout=timeout)
    return p.returncode, p.stdout + p.stderr


def main():
    sid = sys.argv[1]
    d = os.path.join(VERIF, "seeded", sid)
    wt = "/tmp/sf_confirm_%s" % sid
    env = dict(os.environ, CARGO_NET_OFFLINE="true", CARGO_TARGET_DIR=os.path.join(wt, "target"))
    subprocess.run(["git", "-C", "/repo", "worktree", "remove", "--force", wt], capture_output=True)
    shutil.rmtree(wt, ignore_errors=True)
    subprocess.run(["git", "-C", "/repo", "worktree", "add", "-q", "--detach", wt, "HEAD"], check=True)
    out = {"repo_head": subprocess.run(["git", "-C", "/repo", "rev-parse", "--short", "HEAD"], capture_output=True, text=True).stdout.strip()}
    try:
        os.makedirs(os.path.join(wt, "tests"), exist_ok=True)
        shutil.copy(os.path.join(d, "demo.rs"), os.path.join(wt, "tests", "demo.rs"))
        rc, o = run("cargo test --offline --test demo 2>&1 | tail -15", wt, env)
        out["demo_without_patch_passes"] = "test result: ok" in o
        out["demo_without_patch_tail"] = o[-600:]
        rc, o = run("git apply --exclude='tests/*' %s" % os.path.join(d, "patch.diff"), wt, env)
        out["patch_applies"] = rc == 0
        if rc != 0:
            out["apply_error"] = o[-500:]
        else:
            rc, o = run("cargo test --offline --lib 2>&1 | grep 'test result'", wt, env)
            out["unit_tests_with_patch"] = o.strip()
            out["unit_tests_pass_with_patch"] = "66 passed; 0 failed" in o
            rc, o = run("cargo test --offline --test demo 2>&1 | tail -15", wt, env)
            out["demo_with_patch_fails"] = "FAILED" in o or "failed" in o and "test result: ok" not in o
            out["demo_with_patch_tail"] = o[-600:]
        out["confirmed"] = bool(out.get("patch_applies") and out.get("unit_tests_pass_with_patch")
                                and out.get("demo_with_patch_fails") and out.get("demo_without_patch_passes"))
    finally:
        subprocess.run(["git", "-C", "/repo", "worktree", "remove", "--force", wt], capture_output=True)
        shutil.rmtree(wt, ignore_errors=True)
    mp = os.path.join(d, "meta.json")
    meta = json.load(open(mp))
    meta["confirmed_by_verif"] = {k: out[k] for k in out if not k.endswith("_tail")}
    meta["confirmed_by_verif"]["ran"] = ("scratch worktree of /repo HEAD: demo without patch; git apply patch.diff; "
                                         "cargo test --offline --lib; cargo test --offline --test demo")
    json.dump(meta, open(mp, "w"), indent=1)
    print(sid, json.dumps({k: v for k, v in out.items() if not k.endswith("_tail")}))
    if not out["confirmed"]:
        print(out.get("demo_without_patch_tail", ""), out.get("demo_with_patch_tail", ""))


if __name__ == "__main__":
    main()
