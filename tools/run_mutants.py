#!/usr/bin/env python3
"""Runs the quick check of each seeded change's property against a scratch copy of /repo with the change
applied (VERIF_REPO), records whether the check reports a VIOLATION, and regenerates seeded/RESULTS.md.
usage: tools/run_mutants.py [--workers N] [--timeout S] [id ...]"""
import json, os, re, shutil, subprocess, sys, time

VERIF = os.path.dirname(os.path.dirname(os.path.abspath(__file__)))


def main():
    args = sys.argv[1:]
    workers, timeout = 6, 2400
    ids = []
    while args:
        a = args.pop(0)
        if a == "--workers":
            workers = int(args.pop(0))
        elif a == "--timeout":
            timeout = int(args.pop(0))
        else:
            ids.append(a)
    sd = os.path.join(VERIF, "seeded")
    ids = ids or sorted(d for d in os.listdir(sd) if os.path.isdir(os.path.join(sd, d)))
    for sid in ids:
        d = os.path.join(sd, sid)
        meta = json.load(open(os.path.join(d, "meta.json")))
        prop = meta["property"]
        scratch = "/tmp/sf_mutrun_%s" % sid
        shutil.rmtree(scratch, ignore_errors=True)
        subprocess.run(["git", "-C", "/repo", "worktree", "prune"], capture_output=True)
        subprocess.run(["git", "clone", "-q", "/repo", scratch], check=True)
        r = subprocess.run(["git", "-C", scratch, "apply", "--exclude=tests/*", os.path.join(d, "patch.diff")], capture_output=True, text=True)
        if r.returncode != 0:
            res = {"applies": False, "error": r.stderr[-300:]}
        else:
            env = dict(os.environ, VERIF_REPO=scratch)
            t0 = time.time()
            extra = meta.get("check_args", [])
            try:
                p = subprocess.run(["python3", "vk/check.py", prop, "--no-evidence", "--workers", str(workers)] + extra, cwd=VERIF, env=env,
                                   capture_output=True, text=True, timeout=timeout)
                out, rc = p.stdout + p.stderr, p.returncode
            except subprocess.TimeoutExpired as e:
                out, rc = (e.stdout or b"").decode(errors="replace") if isinstance(e.stdout, bytes) else (e.stdout or ""), -9
                subprocess.run("pkill -f 'VERIF_REPO=%s' ; true" % scratch, shell=True)
            vio = re.findall(r"^VIOLATION .*$", out, re.M)
            refuted = re.findall(r"^refuted ([^:]+): (.{0,160})", out, re.M)
            res = {"applies": True, "exit": rc, "violations": vio[:3], "refuted": refuted[:3], "wall_s": round(time.time() - t0),
                   "summary": (re.findall(r"^== .*exit \d+$", out, re.M) or [""])[-1], "tier": "quick", "args": extra,
                   "repo_head": subprocess.run(["git", "-C", "/repo", "rev-parse", "--short", "HEAD"], capture_output=True, text=True).stdout.strip()}
        shutil.rmtree(scratch, ignore_errors=True)
        meta["check_result"] = res
        json.dump(meta, open(os.path.join(d, "meta.json"), "w"), indent=1)
        print(sid, json.dumps(res)[:400], flush=True)
    # RESULTS.md
    lines = ["# Seeded changes and what the checks report", "",
             "Each change was produced by an independent sub-agent that saw only the property text; it compiles, passes the 66 unit tests, "
             "and its demonstration fails with it and passes without it (confirmed in a scratch worktree, see meta.json).", "",
             "| id | property | change | needs | confirmed | quick check verdict |", "|---|---|---|---|---|---|"]
    for sid in sorted(os.listdir(sd)):
        mp = os.path.join(sd, sid, "meta.json")
        if not os.path.exists(mp):
            continue
        m = json.load(open(mp))
        cr = m.get("check_result", {})
        verdict = "not run"
        if cr:
            if not cr.get("applies", True):
                verdict = "patch does not apply to current HEAD"
            elif cr.get("exit") == 1:
                verdict = "**caught** (exit 1): " + "; ".join(r[0] for r in cr.get("refuted", []))
            elif cr.get("exit") == 0:
                verdict = "MISSED (exit 0)"
            else:
                verdict = "inconclusive (exit %s)" % cr.get("exit")
        lines.append("| %s | %s | %s | %s | %s | %s |" % (sid, m.get("property"), str(m.get("summary", ""))[:160].replace("|", "/").replace("\n", " "),
                                                      str(m.get("needs_to_manifest", ""))[:140].replace("|", "/").replace("\n", " "),
                                                      m.get("confirmed_by_verif", {}).get("confirmed"), verdict))
    open(os.path.join(sd, "RESULTS.md"), "w").write("\n".join(lines) + "\n")


if __name__ == "__main__":
    main()
