#!/bin/bash
# usage: tools/mut.sh <seeded-id> [extra check.py args]  - runs the property's check against a scratch clone of /repo with the
# seeded change applied (VERIF_REPO), output in /tmp/mutlog/<id>.log; the clone is removed afterwards
set -u
sid=$1; shift
prop=${MUTPROP:-${sid%%_*}}
mkdir -p /tmp/mutlog /tmp/mut
sc=/tmp/mut/$sid.$$
rm -rf $sc; git clone -q /repo $sc || exit 3
git -C $sc apply --exclude='tests/*' /verif/seeded/$sid/patch.diff || { echo "patch does not apply"; rm -rf $sc; exit 3; }
cd /verif
t0=$(date +%s)
VERIF_REPO=$sc timeout ${MUTTIMEOUT:-3000} python3 vk/check.py $prop --no-evidence "$@" > /tmp/mutlog/$sid.log 2>&1
rc=$?
rm -rf $sc
echo "$sid prop=$prop exit=$rc wall=$(( $(date +%s) - t0 ))s $(grep '^== ' /tmp/mutlog/$sid.log | tail -1)" | tee -a /tmp/mutlog/summary.txt
