#!/bin/bash
# usage: tools/try_mutant.sh <seeded-id> <PROP> [extra check.py args]
# applies seeded/<id>/patch.diff to /repo, runs the check, and ALWAYS reverts /repo afterwards.
set -u
sid=$1; prop=$2; shift 2
cd /verif
if ! git -C /repo diff --quiet; then echo "/repo has uncommitted changes; refusing"; exit 3; fi
git -C /repo apply --exclude='tests/*' /verif/seeded/$sid/patch.diff || { echo "patch does not apply"; exit 3; }
trap 'git -C /repo checkout -- . ; echo "[repo reverted]"' EXIT
python3 vk/check.py $prop --no-evidence "$@" 2>&1 | grep -v "^warning" | tail -${TAIL:-15}
echo "exit=${PIPESTATUS[0]}"
