#!/bin/bash
# usage: tools/run_batch.sh <timeout_s> ID...   (sequential; logs in /tmp/batch_<ID>.log)
to=$1; shift
cd /verif
for id in "$@"; do
  ( time timeout $to python3 vk/check.py $id --keep ) > /tmp/batch_$id.log 2>&1
  echo "$id exit=$? $(grep '^== ' /tmp/batch_$id.log | tail -1)" >> /tmp/batch_summary.log
done
