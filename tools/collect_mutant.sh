#!/bin/bash
# usage: tools/collect_mutant.sh <PROP>   - takes /tmp/wt/<PROP>/OUT into seeded/<PROP>_<next n>, confirms it in a scratch
# worktree (tools/confirm_seeded.py) and removes the sub-agent's worktree with its build output
set -u
p=$1; n=1; while [ -e /verif/seeded/${p}_$n ]; do n=$((n+1)); done
d=/verif/seeded/${p}_$n
[ -f /tmp/wt/$p/OUT/patch.diff ] || { echo "no OUT for $p"; exit 1; }
mkdir -p $d
cp /tmp/wt/$p/OUT/patch.diff /tmp/wt/$p/OUT/demo.rs /tmp/wt/$p/OUT/meta.json $d/ || exit 1
git -C /repo worktree remove --force /tmp/wt/$p; rm -rf /tmp/wt/$p
python3 /verif/tools/confirm_seeded.py ${p}_$n 2>&1 | tail -3 | cut -c1-400
