#!/bin/bash
# usage: tools/run_matrix.sh <workers-per-stream> id...   - two parallel streams of tools/mut.sh over the given seeded ids
w=$1; shift
ids=("$@")
a=(); b=()
for i in "${!ids[@]}"; do if (( i % 2 == 0 )); then a+=("${ids[$i]}"); else b+=("${ids[$i]}"); fi; done
( for m in "${a[@]}"; do MUTTIMEOUT=1000 /verif/tools/mut.sh $m --workers $w; done ) > /dev/null 2>&1 &
( for m in "${b[@]}"; do MUTTIMEOUT=1000 /verif/tools/mut.sh $m --workers $w; done ) > /dev/null 2>&1 &
wait
