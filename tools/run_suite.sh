#!/bin/bash
# usage: tools/run_suite.sh [ID...]   - runs the quick check of each property on the unchanged tree, sequentially,
# writing evidence; one summary line per property in /tmp/suite_summary.txt
cd /verif
ids=${@:-C01 C02 C03 C04 C05 C06 C07 C08 C09 C10 C11 C12 C13 C14 C15 C16 C17 C18}
for id in $ids; do
  t0=$(date +%s)
  VERIF_SEED=${VERIF_SEED:-1} python3 vk/check.py $id --tier quick --keep > /tmp/suite_$id.log 2>&1
  rc=$?
  echo "$id exit=$rc wall=$(( $(date +%s) - t0 ))s $(grep '^== ' /tmp/suite_$id.log | tail -1)" >> /tmp/suite_summary.txt
done
