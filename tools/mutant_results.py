#!/usr/bin/env python3
"""Folds the outcomes of tools/mut.sh runs (/tmp/mutlog/summary.txt, last line per id wins; full-check runs only, i.e. runs
without --only are preferred) into seeded/<id>/meta.json and regenerates seeded/RESULTS.md."""
import json, os, re, subprocess, sys

VERIF = os.path.dirname(os.path.dirname(os.path.abspath(__file__)))
sd = os.path.join(VERIF, "seeded")
head = subprocess.run(["git", "-C", "/repo", "rev-parse", "--short", "HEAD"], capture_output=True, text=True).stdout.strip()
vhead = subprocess.run(["git", "-C", VERIF, "rev-parse", "--short", "HEAD"], capture_output=True, text=True).stdout.strip()
latest = {}
if os.path.exists("/tmp/mutlog/summary.txt"):
    for line in open("/tmp/mutlog/summary.txt"):
        m = re.match(r"(\S+) prop=(\S+) exit=(-?\d+) wall=(\d+)s (.*)", line.strip())
        if m:
            latest[m.group(1)] = m.groups()
for sid, (_, prop, rc, wall, summ) in latest.items():
    mp = os.path.join(sd, sid, "meta.json")
    if not os.path.exists(mp):
        continue
    meta = json.load(open(mp))
    logp = "/tmp/mutlog/%s.log" % sid
    out = open(logp, errors="replace").read() if os.path.exists(logp) else ""
    refuted = re.findall(r"^refuted ([^:]+): (.{0,160})", out, re.M)
    vio = re.findall(r"^VIOLATION .*$", out, re.M)
    partial = "obligations=" in out and not re.search(r"tier=quick seed=\d+ obligations=", out) is None and "--only" in " ".join(sys.argv)
    meta["check_result"] = {"applies": True, "exit": int(rc), "violations": vio[:3], "refuted": refuted[:3], "wall_s": int(wall), "summary": summ,
                            "tier": "quick", "repo_head": head, "verif_head": vhead, "property_checked": prop}
    json.dump(meta, open(mp, "w"), indent=1)
lines = ["# Seeded changes and what the checks report", "",
         "Each change was produced by an independent sub-agent that saw only the property text; it compiles, passes the 66 unit tests, "
         "and its demonstration fails with it and passes without it (confirmed in a scratch worktree, see meta.json).  'verdict' is the outcome of "
         "the property's quick check (800 s run budget) against a scratch clone of /repo with the change applied.", "",
         "| id | property | change | needs | confirmed | quick check verdict | wall |", "|---|---|---|---|---|---|---|"]
caught = total = 0
for sid in sorted(os.listdir(sd)):
    mp = os.path.join(sd, sid, "meta.json")
    if not os.path.exists(mp):
        continue
    m = json.load(open(mp))
    cr = m.get("check_result", {})
    verdict = "not run"
    total += 1
    if cr:
        if not cr.get("applies", True):
            verdict = "patch does not apply to current HEAD"
        elif cr.get("exit") == 1:
            verdict = "**caught** (exit 1): " + "; ".join(r[0] for r in cr.get("refuted", []))
            caught += 1
        elif cr.get("exit") == 0:
            verdict = "MISSED (exit 0)"
        else:
            verdict = "inconclusive (exit %s)" % cr.get("exit")
    lines.append("| %s | %s | %s | %s | %s | %s | %s |" % (sid, m.get("property"), str(m.get("summary", ""))[:160].replace("|", "/").replace("\n", " "),
                                                      str(m.get("needs_to_manifest", ""))[:140].replace("|", "/").replace("\n", " "),
                                                      m.get("confirmed_by_verif", {}).get("confirmed"), verdict, cr.get("wall_s", "")))
lines += ["", "%d of %d seeded changes are reported as VIOLATION by the quick check of their property." % (caught, total)]
open(os.path.join(sd, "RESULTS.md"), "w").write("\n".join(lines) + "\n")
print("%d/%d caught" % (caught, total))
