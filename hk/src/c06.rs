//! C06 – floor/ceil/round/round_ties_to_even/round_to_zero/int/frac against exact rounding.
use crate::util::*;

#[derive(Clone, Copy)]
struct Want<B> {
    wrapped: B,
    overflow: bool,
    positive: bool,
}

/// exact result  (-1)^neg * mag * 2^f  reduced to the type
#[inline(always)]
fn settle<B: Raw>(neg: bool, mag: u128, mag_carry: bool, f: u32) -> Want<B> {
    // value magnitude as 256-bit: (mag + carry*2^128) << f
    let v = U256::shl_u128(mag, f);
    let w = B::W;
    let neg = neg && (mag != 0 || mag_carry);
    // limit of the magnitude
    let fits = if mag_carry {
        false
    } else if B::SIGNED {
        let lim = 1u128 << (w - 1); // 2^(W-1)
        if neg { v.hi == 0 && v.lo <= lim } else { v.hi == 0 && v.lo < lim }
    } else {
        !neg && v.hi == 0 && (w == 128 || v.lo < (1u128 << w))
    };
    let low = if neg { v.lo.wrapping_neg() } else { v.lo };
    Want { wrapped: B::trunc(low), overflow: !fits, positive: !neg }
}

macro_rules! check_forms {
    ($x:expr, $want:expr, $L:ty, $ovf:ident, $chk:ident, $sat:ident, $wrp:ident, $plain:ident, $what:literal) => {{
        let want = $want;
        let (v, o) = $x.$ovf();
        assert!(o == want.overflow, $what);
        assert!(v.to_bits() == want.wrapped, $what);
        assert!($x.$wrp().to_bits() == want.wrapped, $what);
        match $x.$chk() {
            None => assert!(want.overflow, $what),
            Some(c) => {
                assert!(!want.overflow, $what);
                assert!(c.to_bits() == want.wrapped, $what);
            }
        }
        let s = $x.$sat();
        if want.overflow {
            let b = if want.positive { <$L>::max_value() } else { <$L>::min_value() };
            assert!(s.to_bits() == b.to_bits(), $what);
        } else {
            assert!(s.to_bits() == want.wrapped, $what);
            assert!($x.$plain().to_bits() == want.wrapped, $what);
        }
    }};
}

pub fn round_all<L>()
where
    L: Fixed,
    L::Bits: Raw,
{
    let b = <L::Bits as Raw>::any();
    let x = L::from_bits(b);
    let f = L::frac_nbits();
    let (neg, abs) = b.neg_abs();
    let ip = if f >= 128 { 0 } else { abs >> f };
    let fp = if f == 0 { 0 } else if f >= 128 { abs } else { abs & ((1u128 << f) - 1) };
    let half = if f == 0 { 0 } else { 1u128 << (f - 1) };
    let has_frac = fp != 0;
    kani::cover!(has_frac || f == 0, "W:fractional part present (or integer type)");
    kani::cover!((f > 0 && fp == half) || f == 0, "W:tie (or integer type)");

    // floor
    let (m, c) = if neg && has_frac { ip.overflowing_add(1) } else { (ip, false) };
    let w_floor = settle::<L::Bits>(neg, m, c, f);
    check_forms!(x, w_floor, L, overflowing_floor, checked_floor, saturating_floor, wrapping_floor, floor, "floor forms equal exact rounding (flag / wrapped value / None / saturation side)");
    // ceil
    let (m, c) = if !neg && has_frac { ip.overflowing_add(1) } else { (ip, false) };
    let w_ceil = settle::<L::Bits>(neg, m, c, f);
    check_forms!(x, w_ceil, L, overflowing_ceil, checked_ceil, saturating_ceil, wrapping_ceil, ceil, "ceil forms equal exact rounding (flag / wrapped value / None / saturation side)");
    // round, ties away from zero
    let (m, c) = if f > 0 && fp >= half { ip.overflowing_add(1) } else { (ip, false) };
    let w_round = settle::<L::Bits>(neg, m, c, f);
    check_forms!(x, w_round, L, overflowing_round, checked_round, saturating_round, wrapping_round, round, "round forms equal exact rounding, ties away from zero (flag / wrapped value / None / saturation side)");
    // round, ties to even
    let up = f > 0 && (fp > half || (fp == half && (ip & 1) == 1));
    let (m, c) = if up { ip.overflowing_add(1) } else { (ip, false) };
    let w_even = settle::<L::Bits>(neg, m, c, f);
    check_forms!(x, w_even, L, overflowing_round_ties_to_even, checked_round_ties_to_even,
        saturating_round_ties_to_even, wrapping_round_ties_to_even, round_ties_to_even, "round_ties_to_even forms equal exact rounding (flag / wrapped value / None / saturation side)");
    // round_to_zero never overflows
    let w_zero = settle::<L::Bits>(neg, ip, false, f);
    assert!(!w_zero.overflow);
    assert!(x.round_to_zero().to_bits() == w_zero.wrapped, "round_to_zero = truncation toward zero");
    // int / frac
    let xi = x.int().to_bits().sext();
    let xf = x.frac().to_bits().sext();
    let w = <L::Bits as Raw>::W;
    let wmask = if w == 128 { u128::MAX } else { (1u128 << w) - 1 };
    assert!((xi.wrapping_add(xf) & wmask) == (b.sext() & wmask), "int + frac == value");
    if L::int_nbits() >= 1 {
        assert!(x.int().to_bits() == w_floor.wrapped && !w_floor.overflow || w_floor.overflow,
            "int is the floor when the type has an integer bit");
        let fmask = if f == 0 { 0 } else { (1u128 << f) - 1 };
        assert!((xi & fmask) == 0, "int has no fractional bits");
        assert!(xf == (b.sext() & fmask), "0 <= frac < 1: frac is the low f bits");
    }
    kani::cover!(true, "W:end reached");
}

include!("gen_c06.rs");
