//! c17 harness instantiations (bodies in tr.rs)
use crate::tr::*;

include!("gen_c17.rs");
