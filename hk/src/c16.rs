//! c16 harness instantiations (bodies in tr.rs)
use crate::tr::*;

include!("gen_c16.rs");
