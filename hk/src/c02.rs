//! C02 harness instantiations (bodies in ar.rs)
use crate::util::*;
use crate::ar::*;

include!("gen_c02.rs");
