//! C07 – remainders and Euclidean division: a = q*b + r with the right sign/range.
//! Widths 8 and 16: exact oracle in a wider primitive integer ($Wd = i32 / i64).  The back end
//! cannot relate two dividers of the same operands at larger widths (see DESIGN.md), so wider
//! types are checked on divisor families (c07_fam_*) and by necessary conditions.
use crate::util::*;

macro_rules! policy {
    ($L:ty, $I:ty, $Wd:ty, $r:expr, $ovf:expr, $wrp:expr, $chk:expr, $msg:literal) => {{
        // $r: exact result in units of the last place, as $Wd
        let r: $Wd = $r;
        let fits = r >= <$I>::MIN as $Wd && r <= <$I>::MAX as $Wd;
        let (v, o) = $ovf;
        assert!(o == !fits, $msg);
        assert!(v.to_bits() == r as $I, $msg);
        assert!($wrp.to_bits() == r as $I, $msg);
        match $chk {
            None => assert!(!fits, $msg),
            Some(c) => assert!(fits && c.to_bits() == r as $I, $msg),
        }
        fits
    }};
}

/// fixed % fixed, rem_euclid and checked forms
macro_rules! c07_rem {
    ($name:ident, $L:ty, $I:ty, $Wd:ty) => {
        #[kani::proof]
        pub fn $name() {
            let a: $I = kani::any();
            let b: $I = kani::any();
            kani::assume(b != 0);
            let x = <$L>::from_bits(a);
            let y = <$L>::from_bits(b);
            let (aw, bw) = (a as $Wd, b as $Wd);
            let r = aw % bw;
            let re = aw.rem_euclid(bw);
            kani::cover!(r != 0, "W:non-zero truncated remainder");
            kani::cover!(re != 0, "W:non-zero remainder");
            assert!((x % y).to_bits() as $Wd == r, "a % b = a - b*trunc(a/b)");
            {
                // assigning and by-reference operator forms
                let mut t = x;
                t %= y;
                let mut u = x;
                u %= &y;
                assert!(t.to_bits() as $Wd == r && u.to_bits() as $Wd == r && (&x % &y).to_bits() as $Wd == r, "a %= b, a %= &b, &a % &b equal a % b");
            }
            match x.checked_rem(y) {
                Some(v) => assert!(v.to_bits() as $Wd == r, "checked_rem = Some(a % b)"),
                None => assert!(false, "checked_rem is Some for a non-zero divisor"),
            }
            assert!(x.rem_euclid(y).to_bits() as $Wd == re, "rem_euclid is the unique r in [0,|b|) with (a-r)/b integer");
            match x.checked_rem_euclid(y) {
                Some(v) => assert!(v.to_bits() as $Wd == re, "checked_rem_euclid = Some(rem_euclid)"),
                None => assert!(false, "checked_rem_euclid is Some for a non-zero divisor"),
            }
        }
    };
    ($name:ident, $L:ty, $I:ty, $Wd:ty; $B:expr) => {
        #[kani::proof]
        pub fn $name() {
            let a: $I = kani::any();
            let b: $I = $B;
            kani::assume(b != 0);
            let x = <$L>::from_bits(a);
            let y = <$L>::from_bits(b);
            let (aw, bw) = (a as $Wd, b as $Wd);
            let r = aw % bw;
            let re = aw.rem_euclid(bw);
            kani::cover!(true, "W:reached");
            kani::cover!(true, "W:reached");
            assert!((x % y).to_bits() as $Wd == r, "a % b = a - b*trunc(a/b)");
            {
                // assigning and by-reference operator forms
                let mut t = x;
                t %= y;
                let mut u = x;
                u %= &y;
                assert!(t.to_bits() as $Wd == r && u.to_bits() as $Wd == r && (&x % &y).to_bits() as $Wd == r, "a %= b, a %= &b, &a % &b equal a % b");
            }
            match x.checked_rem(y) {
                Some(v) => assert!(v.to_bits() as $Wd == r, "checked_rem = Some(a % b)"),
                None => assert!(false, "checked_rem is Some for a non-zero divisor"),
            }
            assert!(x.rem_euclid(y).to_bits() as $Wd == re, "rem_euclid is the unique r in [0,|b|) with (a-r)/b integer");
            match x.checked_rem_euclid(y) {
                Some(v) => assert!(v.to_bits() as $Wd == re, "checked_rem_euclid = Some(rem_euclid)"),
                None => assert!(false, "checked_rem_euclid is Some for a non-zero divisor"),
            }
        }
    };
}

/// Policy forms of a Euclidean quotient with the regions of the open known findings carved out.
/// r = exact q*2^f; t_fits = the truncated quotient trunc(a*2^f/b) the library starts from is representable;
/// one_ok = the +-1 the library adds to correct the quotient is representable (or no correction needed).
macro_rules! diveuc_policy {
    ($L:ty, $I:ty, $Wd:ty, $r:expr, $t_fits:expr, $one_ok:expr, $ovf:expr, $wrp:expr, $chk:expr, $sat:expr, $plain:expr, $msg:literal) => {{
        let r: $Wd = $r;
        let fits = r >= <$I>::MIN as $Wd && r <= <$I>::MAX as $Wd;
        let mut check_value = true;
        // kf_c07_trunc_ovf: Euclidean quotient fits but the truncated one does not -> library reports overflow
        if cfg!(feature = "kf_c07_trunc_ovf") {
            kani::assume(!(fits && !$t_fits));
        }
        // kf_c07_wrapped: on overflow the returned value is not the exact quotient mod 2^W
        if cfg!(feature = "kf_c07_wrapped") && !fits {
            check_value = false;
        }
        let (v, o) = $ovf;
        assert!(o == !fits, $msg);
        if check_value {
            assert!(v.to_bits() == r as $I, $msg);
            assert!($wrp.to_bits() == r as $I, $msg);
        }
        match $chk {
            None => assert!(!fits, $msg),
            Some(c) => assert!(fits && c.to_bits() == r as $I, $msg),
        }
        let s = $sat;
        if fits {
            assert!(s.to_bits() == r as $I, $msg);
            // kf_c07_plain_one: the operator form adds from_num(+-1), which panics/wraps when 1 is not representable
            if !(cfg!(feature = "kf_c07_plain_one") && !$one_ok) {
                assert!($plain.to_bits() == r as $I, $msg);
            }
        } else {
            let bound = if r < 0 { <$L>::min_value() } else { <$L>::max_value() };
            assert!(s.to_bits() == bound.to_bits(), $msg);
        }
    }};
}

/// div_euclid and its four policy forms
macro_rules! c07_diveuc {
    ($name:ident, $L:ty, $I:ty, $Wd:ty, $F:expr) => {
        #[kani::proof]
        pub fn $name() {
            let a: $I = kani::any();
            let b: $I = kani::any();
            kani::assume(b != 0);
            let x = <$L>::from_bits(a);
            let y = <$L>::from_bits(b);
            let (aw, bw) = (a as $Wd, b as $Wd);
            let q = aw.div_euclid(bw);
            let r: $Wd = q << $F;
            let t = (aw << $F) / bw;
            let t_fits = t >= <$I>::MIN as $Wd && t <= <$I>::MAX as $Wd;
            let one: $Wd = 1 << $F;
            let corrected = aw % bw < 0;
            let one_ok = !corrected || one <= <$I>::MAX as $Wd; // the operator form always builds from_num(1)
            kani::cover!(q != 0 && aw % bw != 0, "W:non-zero quotient with remainder");
            diveuc_policy!($L, $I, $Wd, r, t_fits, one_ok, x.overflowing_div_euclid(y), x.wrapping_div_euclid(y),
                x.checked_div_euclid(y), x.saturating_div_euclid(y), x.div_euclid(y),
                "div_euclid forms: q = Euclidean quotient, flag <=> q not representable, value q*2^f mod 2^W, None, saturation side");
        }
    };
    ($name:ident, $L:ty, $I:ty, $Wd:ty, $F:expr; $B:expr) => {
        #[kani::proof]
        pub fn $name() {
            let a: $I = kani::any();
            let b: $I = $B;
            kani::assume(b != 0);
            let x = <$L>::from_bits(a);
            let y = <$L>::from_bits(b);
            let (aw, bw) = (a as $Wd, b as $Wd);
            let q = aw.div_euclid(bw);
            let r: $Wd = q << $F;
            let t = (aw << $F) / bw;
            let t_fits = t >= <$I>::MIN as $Wd && t <= <$I>::MAX as $Wd;
            let one: $Wd = 1 << $F;
            let corrected = aw % bw < 0;
            let one_ok = !corrected || one <= <$I>::MAX as $Wd; // the operator form always builds from_num(1)
            kani::cover!(true, "W:reached");
            diveuc_policy!($L, $I, $Wd, r, t_fits, one_ok, x.overflowing_div_euclid(y), x.wrapping_div_euclid(y),
                x.checked_div_euclid(y), x.saturating_div_euclid(y), x.div_euclid(y),
                "div_euclid forms: q = Euclidean quotient, flag <=> q not representable, value q*2^f mod 2^W, None, saturation side");
        }
    };
}

/// fixed % integer, rem_euclid_int and forms
macro_rules! c07_remint {
    ($name:ident, $L:ty, $I:ty, $Wd:ty, $F:expr) => {
        #[kani::proof]
        pub fn $name() {
            let a: $I = kani::any();
            let n: $I = kani::any();
            kani::assume(n != 0);
            let x = <$L>::from_bits(a);
            let aw = a as $Wd;
            let nw: $Wd = (n as $Wd) << $F;
            let r = aw % nw;
            let re = aw.rem_euclid(nw);
            kani::cover!(re != 0, "W:non-zero remainder");
            assert!((x % n).to_bits() as $Wd == r, "a % n = a - n*trunc(a/n)");
            {
                let mut t = x;
                t %= n;
                assert!(t.to_bits() as $Wd == r, "a %= n equals a % n");
            }
            match x.checked_rem_int(n) {
                Some(v) => assert!(v.to_bits() as $Wd == r, "checked_rem_int = Some(a % n)"),
                None => assert!(false, "checked_rem_int is Some for a non-zero divisor"),
            }
            let fits = policy!($L, $I, $Wd, re, x.overflowing_rem_euclid_int(n), x.wrapping_rem_euclid_int(n),
                x.checked_rem_euclid_int(n),
                "rem_euclid_int forms: r in [0,|n|), flag <=> r not representable, value mod 2^W, None");
            if fits {
                assert!(x.rem_euclid_int(n).to_bits() as $Wd == re, "rem_euclid_int = r when representable");
            }
        }
    };
    ($name:ident, $L:ty, $I:ty, $Wd:ty, $F:expr; $B:expr) => {
        #[kani::proof]
        pub fn $name() {
            let a: $I = kani::any();
            let n: $I = $B;
            kani::assume(n != 0);
            let x = <$L>::from_bits(a);
            let aw = a as $Wd;
            let nw: $Wd = (n as $Wd) << $F;
            let r = aw % nw;
            let re = aw.rem_euclid(nw);
            kani::cover!(true, "W:reached");
            assert!((x % n).to_bits() as $Wd == r, "a % n = a - n*trunc(a/n)");
            {
                let mut t = x;
                t %= n;
                assert!(t.to_bits() as $Wd == r, "a %= n equals a % n");
            }
            match x.checked_rem_int(n) {
                Some(v) => assert!(v.to_bits() as $Wd == r, "checked_rem_int = Some(a % n)"),
                None => assert!(false, "checked_rem_int is Some for a non-zero divisor"),
            }
            let fits = policy!($L, $I, $Wd, re, x.overflowing_rem_euclid_int(n), x.wrapping_rem_euclid_int(n),
                x.checked_rem_euclid_int(n),
                "rem_euclid_int forms: r in [0,|n|), flag <=> r not representable, value mod 2^W, None");
            if fits {
                assert!(x.rem_euclid_int(n).to_bits() as $Wd == re, "rem_euclid_int = r when representable");
            }
        }
    };
}

/// div_euclid_int and forms (no saturating form exists)
macro_rules! c07_diveucint {
    ($name:ident, $L:ty, $I:ty, $Wd:ty, $F:expr) => {
        #[kani::proof]
        pub fn $name() {
            let a: $I = kani::any();
            let n: $I = kani::any();
            kani::assume(n != 0);
            let x = <$L>::from_bits(a);
            let aw = a as $Wd;
            let nw: $Wd = (n as $Wd) << $F;
            let q = aw.div_euclid(nw);
            let r: $Wd = q << $F;
            let t = aw / (n as $Wd); // bits of trunc(a/n): always representable except min / -1
            let t_fits = t >= <$I>::MIN as $Wd && t <= <$I>::MAX as $Wd;
            let one: $Wd = 1 << $F;
            let corrected = aw % nw < 0;
            let one_ok = !corrected || one <= <$I>::MAX as $Wd; // the operator form always builds from_num(1)
            kani::cover!(aw % nw != 0, "W:remainder present");
            let fits = r >= <$I>::MIN as $Wd && r <= <$I>::MAX as $Wd;
            let dummy_sat = if fits { <$L>::from_bits(r as $I) } else if r < 0 { <$L>::min_value() } else { <$L>::max_value() };
            diveuc_policy!($L, $I, $Wd, r, t_fits, one_ok, x.overflowing_div_euclid_int(n), x.wrapping_div_euclid_int(n),
                x.checked_div_euclid_int(n), dummy_sat, x.div_euclid_int(n),
                "div_euclid_int forms: Euclidean quotient, flag <=> not representable, value q*2^f mod 2^W, None");
        }
    };
    ($name:ident, $L:ty, $I:ty, $Wd:ty, $F:expr; $B:expr) => {
        #[kani::proof]
        pub fn $name() {
            let a: $I = kani::any();
            let n: $I = $B;
            kani::assume(n != 0);
            let x = <$L>::from_bits(a);
            let aw = a as $Wd;
            let nw: $Wd = (n as $Wd) << $F;
            let q = aw.div_euclid(nw);
            let r: $Wd = q << $F;
            let t = aw / (n as $Wd); // bits of trunc(a/n): always representable except min / -1
            let t_fits = t >= <$I>::MIN as $Wd && t <= <$I>::MAX as $Wd;
            let one: $Wd = 1 << $F;
            let corrected = aw % nw < 0;
            let one_ok = !corrected || one <= <$I>::MAX as $Wd; // the operator form always builds from_num(1)
            kani::cover!(true, "W:reached");
            let fits = r >= <$I>::MIN as $Wd && r <= <$I>::MAX as $Wd;
            let dummy_sat = if fits { <$L>::from_bits(r as $I) } else if r < 0 { <$L>::min_value() } else { <$L>::max_value() };
            diveuc_policy!($L, $I, $Wd, r, t_fits, one_ok, x.overflowing_div_euclid_int(n), x.wrapping_div_euclid_int(n),
                x.checked_div_euclid_int(n), dummy_sat, x.div_euclid_int(n),
                "div_euclid_int forms: Euclidean quotient, flag <=> not representable, value q*2^f mod 2^W, None");
        }
    };
}

/// witnesses of the open known findings (concrete operands; expected to be refuted while the finding is open)
#[kani::proof]
pub fn kfw_c07_trunc_ovf() {
    use substrate_fixed::types::I4F4;
    // 4.25 = (-8)(-0.5) + 0.25: the Euclidean quotient -8 is representable
    let r = I4F4::from_bits(68).checked_div_euclid(I4F4::from_bits(-8));
    assert!(r == Some(I4F4::from_bits(-128)), "checked_div_euclid(4.25, -0.5) on I4F4 is Some(-8)");
}
#[kani::proof]
pub fn kfw_c07_wrapped() {
    use substrate_fixed::types::I4F4;
    // max / 0.25: exact Euclidean quotient 31, 31*16 mod 256 = -16 (-1.0)
    let (v, o) = I4F4::max_value().overflowing_div_euclid(I4F4::from_bits(4));
    assert!(o && v.to_bits() == -16, "overflowing_div_euclid(max, 0.25) on I4F4 wraps to the exact quotient mod 2^8");
}
#[kani::proof]
pub fn kfw_c07_plain_one() {
    use substrate_fixed::types::I1F7;
    // -1.0 div_euclid_int 127 = -1 (representable as -1.0)
    let v = I1F7::from_bits(-128).div_euclid_int(127);
    assert!(v.to_bits() == -128, "div_euclid_int(-1.0, 127) on I1F7 is -1.0");
}

include!("gen_c07.rs");
