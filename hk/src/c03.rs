//! C03 – comparisons order the exact values (fixed/fixed, fixed/int, fixed/float, same type).
use crate::util::*;
use core::hash::{Hash, Hasher};

#[inline(always)]
fn check_ops<X, Y>(x: X, y: Y, want: Option<Ordering>)
where
    X: PartialOrd<Y> + PartialEq<Y> + Copy,
    Y: Copy,
{
    let lt = want == Some(Ordering::Less);
    let eq = want == Some(Ordering::Equal);
    let gt = want == Some(Ordering::Greater);
    assert!((x == y) == eq, "== agrees with exact values");
    assert!((x != y) == !eq, "!= agrees with exact values");
    assert!((x < y) == lt, "< agrees with exact values");
    assert!((x <= y) == (lt || eq), "<= agrees with exact values");
    assert!((x > y) == gt, "> agrees with exact values");
    assert!((x >= y) == (gt || eq), ">= agrees with exact values");
    assert!(ord_code(x.partial_cmp(&y)) == ord_code(want), "partial_cmp agrees with exact values");
}

/// fixed (L) against fixed (R), both operand orders, every bit pattern of both.
pub fn ff<L, R>()
where
    L: Fixed + PartialOrd<R> + PartialEq<R>,
    R: Fixed + PartialOrd<L> + PartialEq<L>,
    L::Bits: Raw,
    R::Bits: Raw,
{
    let a = <L::Bits as Raw>::any();
    let b = <R::Bits as Raw>::any();
    let x = L::from_bits(a);
    let y = R::from_bits(b);
    let (an, aa) = a.neg_abs();
    let (bn, ba) = b.neg_abs();
    let want = cmp_exact(an, aa, L::frac_nbits(), bn, ba, R::frac_nbits());
    kani::cover!(want == Ordering::Less, "W:less");
    kani::cover!(want == Ordering::Greater, "W:greater");
    kani::cover!(want == Ordering::Equal, "W:equal");
    check_ops(x, y, Some(want));
    check_ops(y, x, Some(want.reverse()));
}

/// fixed (L) against primitive integer (I), both operand orders.
pub fn fi<L, I>()
where
    L: Fixed + PartialOrd<I> + PartialEq<I>,
    I: Raw + PartialOrd<L> + PartialEq<L>,
    L::Bits: Raw,
{
    let a = <L::Bits as Raw>::any();
    let b = <I as Raw>::any();
    let x = L::from_bits(a);
    let (an, aa) = a.neg_abs();
    let (bn, ba) = b.neg_abs();
    let want = cmp_exact(an, aa, L::frac_nbits(), bn, ba, 0);
    kani::cover!(want == Ordering::Less, "W:less");
    kani::cover!(want == Ordering::Greater, "W:greater");
    kani::cover!(want == Ordering::Equal, "W:equal");
    check_ops(x, b, Some(want));
    check_ops(b, x, Some(want.reverse()));
}

pub enum FClass {
    Nan,
    Inf(bool),
    /// (-1)^neg * m * 2^e
    Fin { neg: bool, m: u64, e: i32 },
}

pub trait Flt: Copy + PartialOrd + core::fmt::Debug {
    fn any_bits() -> Self;
    fn class(self) -> FClass;
}
impl Flt for f32 {
    #[inline(always)]
    fn any_bits() -> f32 {
        f32::from_bits(kani::any())
    }
    #[inline(always)]
    fn class(self) -> FClass {
        let bits = self.to_bits();
        let s = (bits >> 31) != 0;
        let be = ((bits >> 23) & 0xff) as i32;
        let frac = (bits & 0x7f_ffff) as u64;
        if be == 255 {
            if frac == 0 { FClass::Inf(s) } else { FClass::Nan }
        } else if be == 0 {
            FClass::Fin { neg: s, m: frac, e: -126 - 23 }
        } else {
            FClass::Fin { neg: s, m: frac | (1 << 23), e: be - 127 - 23 }
        }
    }
}
impl Flt for f64 {
    #[inline(always)]
    fn any_bits() -> f64 {
        f64::from_bits(kani::any())
    }
    #[inline(always)]
    fn class(self) -> FClass {
        let bits = self.to_bits();
        let s = (bits >> 63) != 0;
        let be = ((bits >> 52) & 0x7ff) as i32;
        let frac = bits & 0xf_ffff_ffff_ffff;
        if be == 2047 {
            if frac == 0 { FClass::Inf(s) } else { FClass::Nan }
        } else if be == 0 {
            FClass::Fin { neg: s, m: frac, e: -1022 - 52 }
        } else {
            FClass::Fin { neg: s, m: frac | (1 << 52), e: be - 1023 - 52 }
        }
    }
}

/// exact comparison of (-1)^an aa 2^-fa with (-1)^bn m 2^e
#[inline(always)]
pub fn cmp_fixed_float(an: bool, aa: u128, fa: u32, bn: bool, m: u64, e: i32) -> Ordering {
    let an = an && aa != 0;
    let bn = bn && m != 0;
    if an != bn {
        return if an { Ordering::Less } else { Ordering::Greater };
    }
    // magnitudes: compare the positions of the leading ones first, then the aligned bit strings
    let mag = if aa == 0 || m == 0 {
        if aa != 0 { Ordering::Greater } else if m != 0 { Ordering::Less } else { Ordering::Equal }
    } else {
        let za = aa.leading_zeros();
        let zm = (m as u128).leading_zeros();
        let pa = 127 - za as i32 - fa as i32;
        let pb = 127 - zm as i32 + e;
        if pa != pb {
            if pa < pb { Ordering::Less } else { Ordering::Greater }
        } else {
            let l = aa << za;
            let r = (m as u128) << zm;
            if l < r { Ordering::Less } else if l > r { Ordering::Greater } else { Ordering::Equal }
        }
    };
    if an { mag.reverse() } else { mag }
}

/// fixed (L) against float (F): every float bit pattern, both operand orders.
pub fn ffl<L, F, const G: u8>()
where
    L: Fixed + PartialOrd<F> + PartialEq<F>,
    F: Flt + PartialOrd<L> + PartialEq<L>,
    L::Bits: Raw,
{
    let a = <L::Bits as Raw>::any();
    let f = F::any_bits();
    let x = L::from_bits(a);
    let (an, aa) = a.neg_abs();
    let want = match f.class() {
        FClass::Nan => None,
        FClass::Inf(neg) => Some(if neg { Ordering::Greater } else { Ordering::Less }),
        FClass::Fin { neg, m, e } => Some(cmp_fixed_float(an, aa, L::frac_nbits(), neg, m, e)),
    };
    kani::cover!(want.is_none(), "W:nan");
    kani::cover!(want == Some(Ordering::Less), "W:less");
    kani::cover!(want == Some(Ordering::Greater), "W:greater");
    kani::cover!(want == Some(Ordering::Equal), "W:equal");
    let rev = want.map(Ordering::reverse);
    let lt = want == Some(Ordering::Less);
    let eq = want == Some(Ordering::Equal);
    let gt = want == Some(Ordering::Greater);
    // the four kernels of cmp.rs are exercised by separate harnesses (G selects the group)
    if G == 0 {
        assert!((x == f) == eq, "fixed == float agrees with exact values");
        assert!((f != x) == !eq, "float != fixed agrees with exact values");
    } else if G == 1 {
        assert!(ord_code(x.partial_cmp(&f)) == ord_code(want), "fixed.partial_cmp(float) agrees with exact values");
        assert!(ord_code(f.partial_cmp(&x)) == ord_code(rev), "float.partial_cmp(fixed) agrees with exact values");
    } else if G == 2 {
        assert!((x < f) == lt, "fixed < float agrees with exact values");
        assert!((f > x) == lt, "float > fixed agrees with exact values");
    } else if G == 3 {
        assert!((x >= f) == (gt || eq), "fixed >= float agrees with exact values");
        assert!((f <= x) == (gt || eq), "float <= fixed agrees with exact values");
    } else if G == 4 {
        assert!((f < x) == gt, "float < fixed agrees with exact values");
        assert!((x > f) == gt, "fixed > float agrees with exact values");
    } else {
        assert!((f >= x) == (lt || eq), "float >= fixed agrees with exact values");
        assert!((x <= f) == (lt || eq), "fixed <= float agrees with exact values");
    }
}

struct Rec {
    acc: u128,
    n: u32,
}
impl Hasher for Rec {
    fn finish(&self) -> u64 {
        0
    }
    fn write(&mut self, bytes: &[u8]) {
        let mut i = 0;
        while i < bytes.len() {
            self.acc = (self.acc << 8) | bytes[i] as u128;
            self.n += 1;
            i += 1;
        }
    }
}

/// same type: Eq / Ord / Hash coincide with the represented value
pub fn same<L>()
where
    L: Fixed + Ord + Hash,
    L::Bits: Raw + Hash,
{
    let a = <L::Bits as Raw>::any();
    let b = <L::Bits as Raw>::any();
    let x = L::from_bits(a);
    let y = L::from_bits(b);
    let (an, aa) = a.neg_abs();
    let (bn, ba) = b.neg_abs();
    let want = cmp_exact(an, aa, L::frac_nbits(), bn, ba, L::frac_nbits());
    kani::cover!(want == Ordering::Less, "W:less");
    kani::cover!(want == Ordering::Greater, "W:greater");
    assert!(x.cmp(&y) == want, "Ord::cmp is the value order");
    assert!(x.max(y).to_bits() == if want == Ordering::Greater { a } else { b }, "Ord::max");
    check_ops(x, y, Some(want));
    let mut h1 = Rec { acc: 0, n: 0 };
    let mut h2 = Rec { acc: 0, n: 0 };
    x.hash(&mut h1);
    a.hash(&mut h2);
    assert!(h1.n == <L::Bits as Raw>::W / 8, "hash feeds width/8 bytes");
    assert!(h1.acc == h2.acc && h1.n == h2.n, "hash input is exactly the bits (injective in the value)");
}

include!("gen_c03.rs");
