//! c12 harness instantiations (bodies in tr.rs)
use crate::tr::*;

include!("gen_c12.rs");
