//! C04 – fixed<->fixed and fixed<->integer conversions: floor(v * 2^dst_frac) with exact overflow.
use crate::ar::*;
use crate::util::*;
use substrate_fixed::traits::{LossyFrom, LossyInto};

macro_rules! conv_forms {
    ($D:ty, $want:expr, $ovf:expr, $wrp:expr, $chk:expr, $sat:expr, $plain:expr, $bits:ident, $min:expr, $max:expr, $msg:literal) => {{
        let want = $want;
        let (v, o) = $ovf;
        assert!(o == want.overflow, $msg);
        assert!(v.$bits() == want.wrapped, $msg);
        assert!($wrp.$bits() == want.wrapped, $msg);
        match $chk {
            None => assert!(want.overflow, $msg),
            Some(c) => {
                assert!(!want.overflow, $msg);
                assert!(c.$bits() == want.wrapped, $msg);
            }
        }
        let s = $sat;
        if want.overflow {
            let b = if want.positive { $max } else { $min };
            assert!(s.$bits() == b.$bits(), $msg);
        } else {
            assert!(s.$bits() == want.wrapped, $msg);
            assert!($plain.$bits() == want.wrapped, $msg);
        }
    }};
}

trait Id: Sized {
    fn id(self) -> Self {
        self
    }
}
impl<T> Id for T {}

/// fixed -> fixed, every source value
pub fn ff<S, D>()
where
    S: Fixed,
    D: Fixed,
    S::Bits: Raw,
    D::Bits: Raw,
{
    let a = <S::Bits as Raw>::any();
    let x = S::from_bits(a);
    let (sn, sa) = a.neg_abs();
    let (rn, rm) = rescale_sm(sn, sa, S::frac_nbits(), D::frac_nbits());
    let want = settle_sm::<D::Bits>(rn, rm);
    kani::cover!(true, "W:reached");
    kani::cover!(a != <S::Bits as Raw>::trunc(0), "W:non-zero source");
    conv_forms!(D, want, x.overflowing_to_num::<D>(), x.wrapping_to_num::<D>(), x.checked_to_num::<D>(),
        x.saturating_to_num::<D>(), x.to_num::<D>(), to_bits, D::min_value(), D::max_value(),
        "fixed->fixed to_num forms: floor(v*2^dst_frac), flag <=> out of range, value mod 2^W, None, bound on the value's side");
    conv_forms!(D, want, D::overflowing_from_num(x), D::wrapping_from_num(x), D::checked_from_num(x),
        D::saturating_from_num(x), D::from_num(x), to_bits, D::min_value(), D::max_value(),
        "fixed->fixed from_num forms: floor(v*2^dst_frac), flag <=> out of range, value mod 2^W, None, bound on the value's side");
}

/// fixed -> primitive integer
pub fn fi<S, I>()
where
    S: Fixed,
    I: Raw + FromFixed + MinMax,
    S::Bits: Raw,
{
    let a = <S::Bits as Raw>::any();
    let x = S::from_bits(a);
    let (sn, sa) = a.neg_abs();
    let (rn, rm) = rescale_sm(sn, sa, S::frac_nbits(), 0);
    let want = settle_sm::<I>(rn, rm);
    kani::cover!(want.overflow || S::int_nbits() <= I::W - if I::SIGNED && !<S::Bits as Raw>::SIGNED { 1 } else { 0 }, "W:overflow reachable (or destination wide enough)");
    kani::cover!(!want.overflow, "W:value fits");
    conv_forms!(I, want, x.overflowing_to_num::<I>(), x.wrapping_to_num::<I>(), x.checked_to_num::<I>(),
        x.saturating_to_num::<I>(), x.to_num::<I>(), id, I::MINV, I::MAXV,
        "fixed->int to_num forms: floor(v), flag <=> out of range, value mod 2^W, None, bound on the value's side");
}

/// primitive integer -> fixed
pub fn ifx<I, D>()
where
    I: Raw + ToFixed,
    D: Fixed,
    D::Bits: Raw,
{
    let i = <I as Raw>::any();
    let (sn, sa) = i.neg_abs();
    let (rn, rm) = rescale_sm(sn, sa, 0, D::frac_nbits());
    let want = settle_sm::<D::Bits>(rn, rm);
    kani::cover!(!want.overflow, "W:value fits");
    conv_forms!(D, want, D::overflowing_from_num(i), D::wrapping_from_num(i), D::checked_from_num(i),
        D::saturating_from_num(i), D::from_num(i), to_bits, D::min_value(), D::max_value(),
        "int->fixed from_num forms: exact i*2^frac, flag <=> out of range, value mod 2^W, None, bound on the value's side");
}

/// bool -> fixed
pub fn bfx<D>()
where
    D: Fixed,
    D::Bits: Raw,
{
    let b: bool = kani::any();
    let (rn, rm) = rescale_sm(false, b as u128, 0, D::frac_nbits());
    let want = settle_sm::<D::Bits>(rn, rm);
    kani::cover!(b, "W:true");
    conv_forms!(D, want, D::overflowing_from_num(b), D::wrapping_from_num(b), D::checked_from_num(b),
        D::saturating_from_num(b), D::from_num(b), to_bits, D::min_value(), D::max_value(),
        "bool->fixed from_num forms: exact 0/1");
}

/// From (lossless) fixed -> fixed: value preserved
pub fn from_ff<S, D>()
where
    S: Fixed,
    D: Fixed + From<S>,
    S::Bits: Raw,
    D::Bits: Raw,
{
    let a = <S::Bits as Raw>::any();
    let x = S::from_bits(a);
    assert!(D::frac_nbits() >= S::frac_nbits());
    let (sn, sa) = a.neg_abs();
    let (rn, rm) = rescale_sm(sn, sa, S::frac_nbits(), D::frac_nbits());
    let want = settle_sm::<D::Bits>(rn, rm);
    kani::cover!(a != <S::Bits as Raw>::trunc(0), "W:non-zero");
    assert!(!want.overflow, "From: every source value is representable in the destination");
    assert!(D::from(x).to_bits() == want.wrapped, "From preserves the value");
    let y: D = x.into();
    assert!(y.to_bits() == want.wrapped, "Into preserves the value");
}

/// LossyFrom fixed -> fixed: only fractional bits are lost
pub fn lossy_ff<S, D>()
where
    S: Fixed,
    D: Fixed + LossyFrom<S>,
    S::Bits: Raw,
    D::Bits: Raw,
{
    let a = <S::Bits as Raw>::any();
    let x = S::from_bits(a);
    let (sn, sa) = a.neg_abs();
    let (rn, rm) = rescale_sm(sn, sa, S::frac_nbits(), D::frac_nbits());
    let want = settle_sm::<D::Bits>(rn, rm);
    kani::cover!(a != <S::Bits as Raw>::trunc(0), "W:non-zero");
    assert!(!want.overflow, "LossyFrom: every source value fits the destination's integer bits");
    assert!(D::lossy_from(x).to_bits() == want.wrapped, "LossyFrom drops only fractional bits (toward minus infinity)");
}

/// From / LossyFrom integer -> fixed
pub fn from_if<I, D>()
where
    I: Raw,
    D: Fixed + From<I> + LossyFrom<I>,
    D::Bits: Raw,
{
    let i = <I as Raw>::any();
    let (sn, sa) = i.neg_abs();
    let (rn, rm) = rescale_sm(sn, sa, 0, D::frac_nbits());
    let want = settle_sm::<D::Bits>(rn, rm);
    kani::cover!(i != <I as Raw>::trunc(0), "W:non-zero");
    assert!(!want.overflow, "From<int>: every integer is representable");
    assert!(D::from(i).to_bits() == want.wrapped, "From<int> is exact");
    assert!(D::lossy_from(i).to_bits() == want.wrapped, "LossyFrom<int> is exact");
}

/// LossyFrom fixed -> primitive integer: floor of the value, never out of range
pub fn lossy_fi<S, I>()
where
    S: Fixed,
    I: Raw + LossyFrom<S>,
    S::Bits: Raw,
{
    let a = <S::Bits as Raw>::any();
    let x = S::from_bits(a);
    let (sn, sa) = a.neg_abs();
    let (rn, rm) = rescale_sm(sn, sa, S::frac_nbits(), 0);
    let want = settle_sm::<I>(rn, rm);
    kani::cover!(sn || !<S::Bits as Raw>::SIGNED, "W:negative source (or unsigned)");
    assert!(!want.overflow, "LossyFrom<fixed> for int: the floor of every source value fits");
    assert!(I::lossy_from(x) == want.wrapped, "LossyFrom<fixed> for int drops only fractional bits (toward minus infinity)");
    let y: I = x.lossy_into();
    assert!(y == want.wrapped, "LossyInto agrees");
}

/// From fixed (no fractional bits) -> primitive integer: value preserved
pub fn from_fi<S, I>()
where
    S: Fixed,
    I: Raw + From<S>,
    S::Bits: Raw,
{
    let a = <S::Bits as Raw>::any();
    let x = S::from_bits(a);
    let (sn, sa) = a.neg_abs();
    let want = settle_sm::<I>(sn && sa != 0, U256 { hi: 0, lo: sa });
    kani::cover!(sa != 0, "W:non-zero");
    assert!(S::frac_nbits() == 0 && !want.overflow, "From<fixed> for int exists only for integer layouts that fit");
    assert!(I::from(x) == want.wrapped, "From<fixed> for int preserves the value");
}

pub trait MinMax {
    const MINV: Self;
    const MAXV: Self;
}
macro_rules! minmax {
    ($($t:ty),*) => {$( impl MinMax for $t { const MINV: $t = <$t>::MIN; const MAXV: $t = <$t>::MAX; } )*};
}
minmax!(i8, i16, i32, i64, i128, isize, u8, u16, u32, u64, u128, usize);

include!("gen_c04.rs");
