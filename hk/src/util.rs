//! Shared helpers for harnesses.
pub use substrate_fixed::types::extra::*;
pub use substrate_fixed::{
    FixedI128, FixedI16, FixedI32, FixedI64, FixedI8, FixedU128, FixedU16, FixedU32, FixedU64,
    FixedU8, Wrapping,
};
