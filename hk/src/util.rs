//! Shared helpers for harnesses: raw-integer access, exact wide arithmetic used by oracles.
//! Everything here is written from the mathematical definition, in a different shape from
//! the library code (sign/magnitude + 256-bit limbs instead of the library's shifts in i128).
pub use core::cmp::Ordering;
pub use substrate_fixed::traits::{Fixed, FixedSigned, FixedUnsigned, FromFixed, ToFixed};
pub use substrate_fixed::types::extra::*;
pub use substrate_fixed::{
    FixedI128, FixedI16, FixedI32, FixedI64, FixedI8, FixedU128, FixedU16, FixedU32, FixedU64,
    FixedU8, Wrapping,
};

/// Primitive integer with access to sign/magnitude and a symbolic value.
pub trait Raw: Copy + PartialEq + PartialOrd + core::fmt::Debug {
    const W: u32;
    const SIGNED: bool;
    fn any() -> Self;
    /// (is strictly negative, |v| as u128)
    fn neg_abs(self) -> (bool, u128);
    /// two's complement image in 128 bits (sign-extended for signed types)
    fn sext(self) -> u128;
    /// truncating conversion from the low W bits of a u128
    fn trunc(v: u128) -> Self;
    /// exact product of two magnitudes < 2^W, computed in a 2W-bit word (W <= 64)
    fn mulw(a: u128, b: u128) -> u128;
}

macro_rules! raw_signed {
    ($($t:ty, $d:ty);*) => {$(
        impl Raw for $t {
            const W: u32 = <$t>::BITS;
            const SIGNED: bool = true;
            #[inline(always)]
            fn any() -> Self { kani::any() }
            #[inline(always)]
            fn neg_abs(self) -> (bool, u128) { (self < 0, self.unsigned_abs() as u128) }
            #[inline(always)]
            fn sext(self) -> u128 { self as i128 as u128 }
            #[inline(always)]
            fn trunc(v: u128) -> Self { v as $t }
            #[inline(always)]
            fn mulw(a: u128, b: u128) -> u128 { ((a as $d) * (b as $d)) as u128 }
        }
    )*};
}
macro_rules! raw_unsigned {
    ($($t:ty, $d:ty);*) => {$(
        impl Raw for $t {
            const W: u32 = <$t>::BITS;
            const SIGNED: bool = false;
            #[inline(always)]
            fn any() -> Self { kani::any() }
            #[inline(always)]
            fn neg_abs(self) -> (bool, u128) { (false, self as u128) }
            #[inline(always)]
            fn sext(self) -> u128 { self as u128 }
            #[inline(always)]
            fn trunc(v: u128) -> Self { v as $t }
            #[inline(always)]
            fn mulw(a: u128, b: u128) -> u128 { ((a as $d) * (b as $d)) as u128 }
        }
    )*};
}
raw_signed!(i8, u16; i16, u32; i32, u64; i64, u128; i128, u128; isize, u128);
raw_unsigned!(u8, u16; u16, u32; u32, u64; u64, u128; u128, u128; usize, u128);

/// Unsigned 256-bit value as (hi, lo).
#[derive(Clone, Copy, PartialEq, Eq, Debug)]
pub struct U256 {
    pub hi: u128,
    pub lo: u128,
}

impl U256 {
    #[inline(always)]
    pub fn from_u128(v: u128) -> U256 {
        U256 { hi: 0, lo: v }
    }
    /// v * 2^s for 0 <= s <= 128 (exact: v < 2^128)
    #[inline(always)]
    pub fn shl_u128(v: u128, s: u32) -> U256 {
        if s == 0 {
            U256 { hi: 0, lo: v }
        } else if s >= 128 {
            U256 { hi: v, lo: 0 }
        } else {
            U256 { hi: v >> (128 - s), lo: v << s }
        }
    }
    #[inline(always)]
    pub fn cmp(self, o: U256) -> Ordering {
        if self.hi != o.hi {
            if self.hi < o.hi { Ordering::Less } else { Ordering::Greater }
        } else if self.lo != o.lo {
            if self.lo < o.lo { Ordering::Less } else { Ordering::Greater }
        } else {
            Ordering::Equal
        }
    }
}

/// Exact comparison of (-1)^an * aa * 2^-fa with (-1)^bn * ba * 2^-fb, fa, fb <= 128.
#[inline(always)]
pub fn cmp_exact(an: bool, aa: u128, fa: u32, bn: bool, ba: u128, fb: u32) -> Ordering {
    let an = an && aa != 0;
    let bn = bn && ba != 0;
    if an != bn {
        return if an { Ordering::Less } else { Ordering::Greater };
    }
    // same sign: compare magnitudes aa*2^fb vs ba*2^fa
    let l = U256::shl_u128(aa, fb);
    let r = U256::shl_u128(ba, fa);
    let m = l.cmp(r);
    if an { m.reverse() } else { m }
}

pub fn ord_code(o: Option<Ordering>) -> i8 {
    match o {
        None => 2,
        Some(Ordering::Less) => -1,
        Some(Ordering::Equal) => 0,
        Some(Ordering::Greater) => 1,
    }
}
