//! C08 – parsing returns the correctly rounded value of the literal, or a precise error.
//! Strings are ASCII byte arrays with symbolic digits; `from_utf8_unchecked` is sound because every
//! byte is constrained to be < 128.
use crate::ar::*;
use crate::util::*;
use core::str::FromStr;

#[inline(always)]
pub fn as_str(b: &[u8]) -> &str {
    unsafe { core::str::from_utf8_unchecked(b) }
}

/// independent classification of a literal: optional sign, digits, optional point, digits; >= 1 digit
#[inline(always)]
pub fn is_digit(c: u8, radix: u32) -> bool {
    match radix {
        2 => c == b'0' || c == b'1',
        8 => c >= b'0' && c <= b'7',
        10 => c >= b'0' && c <= b'9',
        _ => (c >= b'0' && c <= b'9') || (c >= b'a' && c <= b'f') || (c >= b'A' && c <= b'F'),
    }
}

pub fn valid_literal(b: &[u8], radix: u32) -> bool {
    let mut i = 0;
    let mut ndig = 0;
    let mut seen_point = false;
    while i < b.len() {
        let c = b[i];
        if i == 0 && (c == b'+' || c == b'-') {
            // sign only in front
        } else if c == b'.' {
            if seen_point {
                return false;
            }
            seen_point = true;
        } else if is_digit(c, radix) {
            ndig += 1;
        } else {
            return false;
        }
        i += 1;
    }
    ndig > 0
}

/// every ASCII string of length <= LEN: Ok exactly for the valid literals of the radix, no panic
pub fn tokens<L, const LEN: usize, const RADIX: u32>()
where
    L: Fixed,
{
    let buf: [u8; LEN] = kani::any();
    let n: usize = kani::any();
    kani::assume(n <= LEN);
    let mut i = 0;
    while i < LEN {
        kani::assume(buf[i] < 128);
        i += 1;
    }
    let s = as_str(&buf[..n]);
    let v = valid_literal(&buf[..n], RADIX);
    kani::cover!(v && n == LEN, "W:valid literal of full length");
    kani::cover!(!v && n > 0, "W:invalid string");
    let ok = if RADIX == 10 { L::overflowing_from_str(s).is_ok() } else if RADIX == 2 { L::overflowing_from_str_binary(s).is_ok() }
        else if RADIX == 8 { L::overflowing_from_str_octal(s).is_ok() } else { L::overflowing_from_str_hex(s).is_ok() };
    assert!(ok == v, "Ok exactly for [+-]digits[.digits] with at least one digit of the radix; every other string is an error");
}

/// expected outcome of parsing (-1)^neg * num / den (den > 0) into L, by exact integer division
/// in u64 (short literals of 8/16-bit types only)
#[inline(always)]
pub fn want_u64<B: Raw>(neg: bool, num: u64, den: u64) -> Want<B> {
    let q = num / den;
    let rem = num % den;
    let up = 2 * rem > den || (2 * rem == den && (q & 1) == 1);
    let r = q + if up { 1 } else { 0 };
    settle_sm::<B>(neg, U256 { hi: 0, lo: r as u128 })
}

#[inline(always)]
pub fn check_parse<L: Fixed>(want: Want<L::Bits>, neg_literal: bool, ovf: Result<(L, bool), substrate_fixed::ParseFixedError>,
    wrp: Result<L, substrate_fixed::ParseFixedError>, sat: Result<L, substrate_fixed::ParseFixedError>,
    plain: Result<L, substrate_fixed::ParseFixedError>)
where
    L::Bits: Raw,
{
    match ovf {
        Ok((v, o)) => {
            assert!(o == want.overflow, "overflowing_from_str flag <=> rounded value out of range");
            assert!(v.to_bits() == want.wrapped, "overflowing_from_str value = nearest (ties even) mod 2^W");
        }
        Err(_) => assert!(false, "a well-formed literal parses"),
    }
    match wrp {
        Ok(v) => assert!(v.to_bits() == want.wrapped, "wrapping_from_str = nearest (ties even) mod 2^W"),
        Err(_) => assert!(false, "a well-formed literal parses (wrapping)"),
    }
    match sat {
        Ok(v) => {
            if want.overflow {
                let b = if neg_literal { L::min_value() } else { L::max_value() };
                assert!(v.to_bits() == b.to_bits(), "saturating_from_str returns the bound on the literal's side");
            } else {
                assert!(v.to_bits() == want.wrapped, "saturating_from_str = nearest (ties even)");
            }
        }
        Err(_) => assert!(false, "a well-formed literal parses (saturating)"),
    }
    match plain {
        Ok(v) => assert!(!want.overflow && v.to_bits() == want.wrapped, "from_str = nearest (ties even) when in range"),
        Err(_) => assert!(want.overflow, "from_str fails only on overflow for a well-formed literal"),
    }
}

#[inline(always)]
pub fn check_parse_ovf<L: Fixed>(want: Want<L::Bits>, ovf: Result<(L, bool), substrate_fixed::ParseFixedError>)
where
    L::Bits: Raw,
{
    match ovf {
        Ok((v, o)) => {
            assert!(o == want.overflow, "overflowing_from_str flag <=> rounded value out of range");
            assert!(v.to_bits() == want.wrapped, "overflowing_from_str value = nearest (ties even) mod 2^W");
        }
        Err(_) => assert!(false, "a well-formed literal parses"),
    }
}

include!("gen_c08.rs");
