//! C08 – parsing returns the correctly rounded value of the literal, or a precise error.
//! Strings are ASCII byte arrays with symbolic digits; `from_utf8_unchecked` is sound because every
//! byte is constrained to be < 128.
use crate::ar::*;
use crate::util::*;
use core::str::FromStr;

#[inline(always)]
pub fn as_str(b: &[u8]) -> &str {
    unsafe { core::str::from_utf8_unchecked(b) }
}

/// independent classification of a literal: optional sign, digits, optional point, digits; >= 1 digit
#[inline(always)]
pub fn is_digit(c: u8, radix: u32) -> bool {
    match radix {
        2 => c == b'0' || c == b'1',
        8 => c >= b'0' && c <= b'7',
        10 => c >= b'0' && c <= b'9',
        _ => (c >= b'0' && c <= b'9') || (c >= b'a' && c <= b'f') || (c >= b'A' && c <= b'F'),
    }
}

pub fn valid_literal(b: &[u8], radix: u32) -> bool {
    let mut i = 0;
    let mut ndig = 0;
    let mut seen_point = false;
    while i < b.len() {
        let c = b[i];
        if i == 0 && (c == b'+' || c == b'-') {
            // sign only in front
        } else if c == b'.' {
            if seen_point {
                return false;
            }
            seen_point = true;
        } else if is_digit(c, radix) {
            ndig += 1;
        } else {
            return false;
        }
        i += 1;
    }
    ndig > 0
}

/// every ASCII string of length <= LEN: Ok exactly for the valid literals of the radix, no panic
pub fn tokens<L, const LEN: usize, const RADIX: u32>()
where
    L: Fixed,
{
    let buf: [u8; LEN] = kani::any();
    let n: usize = kani::any();
    kani::assume(n <= LEN);
    let mut i = 0;
    while i < LEN {
        kani::assume(buf[i] < 128);
        i += 1;
    }
    let s = as_str(&buf[..n]);
    let v = valid_literal(&buf[..n], RADIX);
    kani::cover!(v && n == LEN, "W:valid literal of full length");
    kani::cover!(!v && n > 0, "W:invalid string");
    let ok = if RADIX == 10 { L::overflowing_from_str(s).is_ok() } else if RADIX == 2 { L::overflowing_from_str_binary(s).is_ok() }
        else if RADIX == 8 { L::overflowing_from_str_octal(s).is_ok() } else { L::overflowing_from_str_hex(s).is_ok() };
    assert!(ok == v, "Ok exactly for [+-]digits[.digits] with at least one digit of the radix; every other string is an error");
}

/// expected outcome of parsing (-1)^neg * num / den (den > 0) into L, by exact integer division
/// in u64 (short literals of 8/16-bit types only)
#[inline(always)]
pub fn want_u64<B: Raw>(neg: bool, num: u64, den: u64) -> Want<B> {
    let q = num / den;
    let rem = num % den;
    let up = 2 * rem > den || (2 * rem == den && (q & 1) == 1);
    let r = q + if up { 1 } else { 0 };
    settle_sm::<B>(neg, U256 { hi: 0, lo: r as u128 })
}

#[inline(always)]
pub fn check_parse<L: Fixed>(want: Want<L::Bits>, neg_literal: bool, ovf: Result<(L, bool), substrate_fixed::ParseFixedError>,
    wrp: Result<L, substrate_fixed::ParseFixedError>, sat: Result<L, substrate_fixed::ParseFixedError>,
    plain: Result<L, substrate_fixed::ParseFixedError>)
where
    L::Bits: Raw,
{
    match ovf {
        Ok((v, o)) => {
            assert!(o == want.overflow, "overflowing_from_str flag <=> rounded value out of range");
            assert!(v.to_bits() == want.wrapped, "overflowing_from_str value = nearest (ties even) mod 2^W");
        }
        Err(_) => assert!(false, "a well-formed literal parses"),
    }
    match wrp {
        Ok(v) => assert!(v.to_bits() == want.wrapped, "wrapping_from_str = nearest (ties even) mod 2^W"),
        Err(_) => assert!(false, "a well-formed literal parses (wrapping)"),
    }
    match sat {
        Ok(v) => {
            if want.overflow {
                let b = if neg_literal { L::min_value() } else { L::max_value() };
                assert!(v.to_bits() == b.to_bits(), "saturating_from_str returns the bound on the literal's side");
            } else {
                assert!(v.to_bits() == want.wrapped, "saturating_from_str = nearest (ties even)");
            }
        }
        Err(_) => assert!(false, "a well-formed literal parses (saturating)"),
    }
    match plain {
        Ok(v) => assert!(!want.overflow && v.to_bits() == want.wrapped, "from_str = nearest (ties even) when in range"),
        Err(_) => assert!(want.overflow, "from_str fails only on overflow for a well-formed literal"),
    }
}

#[inline(always)]
pub fn check_parse_ovf<L: Fixed>(want: Want<L::Bits>, ovf: Result<(L, bool), substrate_fixed::ParseFixedError>)
where
    L::Bits: Raw,
{
    match ovf {
        Ok((v, o)) => {
            assert!(o == want.overflow, "overflowing_from_str flag <=> rounded value out of range");
            assert!(v.to_bits() == want.wrapped, "overflowing_from_str value = nearest (ties even) mod 2^W");
        }
        Err(_) => assert!(false, "a well-formed literal parses"),
    }
}

// ---------------------------------------------------------------------------------------------
// decimal-fraction kernels of from_str.rs, driven directly through the verif_kernels hook

/// r = RNE(val * 2^nbits / 10^dec) by exact division in u128; the kernel returns None when r == 2^nbits
#[inline(always)]
pub fn rne_frac(val: u128, nbits: u32, pow10: u128) -> u128 {
    let num = val << nbits;
    let q = num / pow10;
    let rem = num % pow10;
    let up = 2 * rem > pow10 || (2 * rem == pow10 && (q & 1) == 1);
    q + if up { 1 } else { 0 }
}

/// is r = RNE(val * 2^nbits / 10^dec)?  multiply-back form (no division): |val 2^(nbits+1) - 2 r 10^dec| <= 10^dec, tie => r even
#[inline(always)]
pub fn is_rne_frac(val: u128, nbits: u32, pow10: u128, r: u128) -> bool {
    let lhs = val << (nbits + 1);
    let rhs = 2 * r * pow10;
    let d = if lhs >= rhs { lhs - rhs } else { rhs - lhs };
    d < pow10 || (d == pow10 && (r & 1) == 0)
}

macro_rules! c08_dec_kernel {
    // exact-division oracle (8/16-bit words)
    ($name:ident, $kfn:ident, $D:ty, $DEC:expr, $BIN:expr, div) => {
        #[kani::proof]
        pub fn $name() {
            let val: $D = kani::any();
            let pow10: u128 = 10u128.pow($DEC);
            kani::assume((val as u128) < pow10);
            let nbits: u32 = kani::any();
            kani::assume(nbits <= $BIN);
            let r = rne_frac(val as u128, nbits, pow10);
            let got = substrate_fixed::verif_kernels::$kfn(val, nbits, true);
            kani::cover!(r == (1u128 << nbits) && nbits > 0, "W:fraction rounds up to one");
            kani::cover!(r != 0 && r < (1u128 << nbits), "W:non-zero fraction fits");
            match got {
                None => assert!(r == (1u128 << nbits), "dec_to_bin(Nearest) is None only when the fraction rounds up to 1.0"),
                Some(g) => assert!(r < (1u128 << nbits) && g as u128 == r, "dec_to_bin(Nearest) = RNE(val * 2^nbits / 10^dec)"),
            }
        }
    };
    // multiply-back oracle, one concrete nbits per query (32/64-bit words)
    ($name:ident, $kfn:ident, $D:ty, $DEC:expr, $NBITS:expr, $VALUE:expr, mulback) => {
        #[kani::proof]
        pub fn $name() {
            let val: $D = kani::any();
            let pow10: u128 = 10u128.pow($DEC);
            kani::assume((val as u128) < pow10);
            let nbits: u32 = $NBITS;
            let got = substrate_fixed::verif_kernels::$kfn(val, nbits, true);
            kani::cover!(got.is_none() || nbits == 0, "W:fraction rounds up to one");
            kani::cover!(got.is_some(), "W:fraction fits");
            // rounds up to 2^nbits  <=>  val * 2^(nbits+1) >= 10^dec (2^(nbits+1) - 1)  (nbits = 0: strictly above one half)
            let d = pow10 - val as u128;
            let to_one = if nbits == 0 { 2 * (val as u128) > pow10 } else { d <= (pow10 >> (nbits + 1)) };
            match got {
                None => assert!(to_one, "dec_to_bin(Nearest) is None only when the fraction rounds up to 1.0"),
                Some(g) => {
                    assert!(!to_one, "dec_to_bin(Nearest) is Some only when the rounded fraction is below 1.0");
                    if $VALUE {
                        assert!(is_rne_frac(val as u128, nbits, pow10, g as u128), "dec_to_bin(Nearest) = RNE(val * 2^nbits / 10^dec) (multiply-back)");
                    }
                }
            }
        }
    };
}

/// 128-bit kernel: the decision "rounds up to 1.0 -> None" for every (hi, lo) < 10^27 at one concrete nbits; the quotient
/// itself comes from Knuth D with the divisor 2*5^54, which the SAT back end does not finish (sliced away here)
pub fn dec128_none<const NBITS: u32>() {
    let hi: u128 = kani::any();
    let lo: u128 = kani::any();
    let p27: u128 = 10u128.pow(27);
    kani::assume(hi < p27 && lo < p27);
    let got = substrate_fixed::verif_kernels::dec_to_bin_u128(hi, lo, NBITS, true);
    let p54 = mul256(p27, p27);
    let v0 = mul256(hi, p27);
    let (vlo, c) = v0.lo.overflowing_add(lo);
    let v = U256 { hi: v0.hi + c as u128, lo: vlo };
    // D = 10^54 - V > 0
    let (dlo, b) = p54.lo.overflowing_sub(v.lo);
    let d = U256 { hi: p54.hi - v.hi - b as u128, lo: dlo };
    let to_one = if NBITS == 0 {
        // V > 10^54 / 2  <=>  D < 10^54 / 2
        let half = U256 { hi: p54.hi >> 1, lo: (p54.lo >> 1) | (p54.hi << 127) };
        d.cmp(half) == Ordering::Less
    } else {
        let k = NBITS + 1;
        let t = if k >= 128 { U256 { hi: 0, lo: if k >= 256 { 0 } else { p54.hi >> (k - 128) } } }
            else { U256 { hi: p54.hi >> k, lo: (p54.lo >> k) | (p54.hi << (128 - k)) } };
        d.cmp(t) != Ordering::Greater
    };
    kani::cover!(to_one, "W:fraction rounds up to one");
    kani::cover!(!to_one, "W:fraction fits");
    assert!(got.is_none() == to_one, "128-bit dec_to_bin(Nearest) is None exactly when the fraction rounds up to 1.0");
}

/// dec_str_frac_to_bin (fast path for short strings, floor + digit-by-digit comparison with the tie for long ones) for EVERY
/// digit string of LEN digits whose last digit is non-zero (the caller trims trailing zeros) and EVERY nbits <= BIN
macro_rules! c08_frac_kernel {
    ($name:ident, $kfn:ident, $LEN:expr, $NLO:expr, $BIN:expr, $UNW:expr) => {
        #[kani::proof]
        #[kani::unwind($UNW)]
        pub fn $name() {
            let mut buf = [b'0'; $LEN];
            let mut val: u128 = 0;
            let mut i = 0;
            while i < $LEN {
                let d: u8 = kani::any();
                kani::assume(d < 10);
                buf[i] = b'0' + d;
                val = val * 10 + d as u128;
                i += 1;
            }
            kani::assume(buf[$LEN - 1] != b'0');
            let nbits: u32 = kani::any();
            kani::assume(nbits >= $NLO && nbits <= $BIN);
            let r = rne_frac(val, nbits, 10u128.pow($LEN));
            let got = substrate_fixed::verif_kernels::$kfn(&buf[..], nbits);
            kani::cover!(r == (1u128 << nbits) && nbits > 0, "W:fraction rounds up to one");
            kani::cover!(r != 0 && r < (1u128 << nbits), "W:non-zero fraction fits");
            match got {
                None => assert!(r == (1u128 << nbits), "dec_str_frac_to_bin is None only when the fraction rounds up to 1.0"),
                Some(g) => assert!(r < (1u128 << nbits) && g as u128 == r, "dec_str_frac_to_bin = RNE(0.digits * 2^nbits)"),
            }
        }
    };
}

include!("gen_c08.rs");
