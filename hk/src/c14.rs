//! c14 harness instantiations (bodies in tr.rs)
use crate::tr::*;

include!("gen_c14.rs");
