//! C05 – float <-> fixed conversions are correctly rounded (ties to even) in both directions.
//! No floating-point operation is executed: library and oracle work on bit patterns.
use crate::ar::*;
use crate::util::*;

pub trait Flt: Copy + ToFixed + FromFixed {
    const PREC: u32;
    const EMIN: i32;
    const EMAX: i32;
    fn any_bits() -> Self;
    /// (nan, inf, neg, m, e): value = (-1)^neg m 2^e
    fn decode(self) -> (bool, bool, bool, u64, i32);
    fn bits64(self) -> u64;
}
impl Flt for f32 {
    const PREC: u32 = 24;
    const EMIN: i32 = -126;
    const EMAX: i32 = 127;
    #[inline(always)]
    fn any_bits() -> f32 {
        f32::from_bits(kani::any())
    }
    #[inline(always)]
    fn decode(self) -> (bool, bool, bool, u64, i32) {
        let bits = self.to_bits();
        let s = (bits >> 31) != 0;
        let be = ((bits >> 23) & 0xff) as i32;
        let frac = (bits & 0x7f_ffff) as u64;
        if be == 255 {
            (frac != 0, frac == 0, s, 0, 0)
        } else if be == 0 {
            (false, false, s, frac, -126 - 23)
        } else {
            (false, false, s, frac | (1 << 23), be - 127 - 23)
        }
    }
    #[inline(always)]
    fn bits64(self) -> u64 {
        self.to_bits() as u64
    }
}
impl Flt for f64 {
    const PREC: u32 = 53;
    const EMIN: i32 = -1022;
    const EMAX: i32 = 1023;
    #[inline(always)]
    fn any_bits() -> f64 {
        f64::from_bits(kani::any())
    }
    #[inline(always)]
    fn decode(self) -> (bool, bool, bool, u64, i32) {
        let bits = self.to_bits();
        let s = (bits >> 63) != 0;
        let be = ((bits >> 52) & 0x7ff) as i32;
        let frac = bits & 0xf_ffff_ffff_ffff;
        if be == 2047 {
            (frac != 0, frac == 0, s, 0, 0)
        } else if be == 0 {
            (false, false, s, frac, -1022 - 52)
        } else {
            (false, false, s, frac | (1 << 52), be - 1023 - 52)
        }
    }
    #[inline(always)]
    fn bits64(self) -> u64 {
        self.to_bits()
    }
}

/// round-to-nearest-even of m * 2^k as a 256-bit integer (exact when k >= 0)
#[inline(always)]
fn rne_scaled(neg: bool, m: u64, k: i32) -> (I256, bool) {
    // returns (value, magnitude certainly >= 2^200 i.e. beyond every type)
    if m == 0 {
        return (I256 { hi: 0, lo: 0 }, false);
    }
    if k >= 0 {
        if k >= 128 {
            // low 128 bits are zero, magnitude >= 2^128
            return (I256 { hi: 0, lo: 0 }, true);
        }
        let v = U256::shl_u128(m as u128, k as u32);
        (I256::from_sign_mag(neg, v.hi, v.lo), false)
    } else {
        let j = -k;
        if j > 64 {
            return (I256 { hi: 0, lo: 0 }, false);
        }
        let m = m as u128;
        let q = m >> j;
        let rem = m & ((1u128 << j) - 1);
        let half = 1u128 << (j - 1);
        let up = rem > half || (rem == half && (q & 1) == 1);
        (I256::from_sign_mag(neg, 0, q + if up { 1 } else { 0 }), false)
    }
}

/// finite float -> fixed: one policy form per harness (FORM 0 overflowing, 1 wrapping, 2 checked,
/// 3 saturating, 4 from_num)
pub fn from_float<L, F, const FORM: u8>()
where
    L: Fixed,
    F: Flt,
    L::Bits: Raw,
{
    let f = F::any_bits();
    let (nan, inf, neg, m, e) = f.decode();
    kani::assume(!nan && !inf);
    let (r, huge) = rne_scaled(neg, m, e + L::frac_nbits() as i32);
    let mut want = settle::<L::Bits>(r);
    if huge {
        want.overflow = true;
        want.positive = !neg;
    }
    kani::cover!(want.overflow && !want.positive, "W:overflows downward");
    kani::cover!(!want.overflow && m != 0 && e + (L::frac_nbits() as i32) < 0, "W:fits after rounding");
    if FORM == 0 {
        let (v, o) = L::overflowing_from_num(f);
        assert!(o == want.overflow, "overflowing_from_num(float) flag <=> rounded value out of range");
        assert!(v.to_bits() == want.wrapped, "overflowing_from_num(float) value = RNE(float * 2^frac) mod 2^W");
    } else if FORM == 1 {
        assert!(L::wrapping_from_num(f).to_bits() == want.wrapped, "wrapping_from_num(float) = RNE(float * 2^frac) mod 2^W");
    } else if FORM == 2 {
        match L::checked_from_num(f) {
            None => assert!(want.overflow, "checked_from_num(float) is None only when the rounded value is out of range"),
            Some(v) => assert!(!want.overflow && v.to_bits() == want.wrapped, "checked_from_num(float) = Some(RNE(float * 2^frac))"),
        }
    } else if FORM == 3 {
        let s = L::saturating_from_num(f);
        if want.overflow {
            let b = if want.positive { L::max_value() } else { L::min_value() };
            assert!(s.to_bits() == b.to_bits(), "saturating_from_num(float) clamps to the bound on the value's side");
        } else {
            assert!(s.to_bits() == want.wrapped, "saturating_from_num(float) = RNE(float * 2^frac)");
        }
    } else {
        kani::assume(!want.overflow);
        assert!(L::from_num(f).to_bits() == want.wrapped, "from_num(float) = RNE(float * 2^frac) when representable");
    }
}

/// non-finite floats: checked -> None, saturating maps infinities to the bounds;
/// everything else must panic (the harness fails with the library's panic only)
pub fn nonfinite<L, F, const FORM: u8>()
where
    L: Fixed,
    F: Flt,
    L::Bits: Raw,
{
    let f = F::any_bits();
    let (nan, inf, neg, _m, _e) = f.decode();
    kani::assume(nan || inf);
    kani::cover!(nan || FORM == 3, "W:nan (inf for the saturating-inf harness)");
    kani::cover!((inf && neg) || FORM == 5, "W:-inf (nan for the saturating-nan harness)");
    if FORM == 2 {
        assert!(L::checked_from_num(f).is_none(), "checked_from_num(non-finite) is None");
    } else if FORM == 3 {
        kani::assume(inf);
        let s = L::saturating_from_num(f);
        let b = if neg { L::min_value() } else { L::max_value() };
        assert!(s.to_bits() == b.to_bits(), "saturating_from_num(+-inf) is the bound");
    } else {
        // must not return
        if FORM == 0 {
            let _ = L::overflowing_from_num(f);
        } else if FORM == 1 {
            let _ = L::wrapping_from_num(f);
        } else if FORM == 4 {
            let _ = L::from_num(f);
        } else {
            kani::assume(nan);
            let _ = L::saturating_from_num(f);
        }
        assert!(false, "MUSTPANIC: conversion of a non-finite float returned a number");
    }
}

/// fixed -> float: IEEE round-to-nearest-even incl. subnormals and overflow to infinity
pub fn to_float<L, F>()
where
    L: Fixed,
    F: Flt,
    L::Bits: Raw,
{
    let a = <L::Bits as Raw>::any();
    let x = L::from_bits(a);
    let (neg, aa) = a.neg_abs();
    let fnb = L::frac_nbits() as i32;
    let prec = F::PREC as i32;
    let sign_bit: u64 = if neg { 1u64 << (if F::PREC == 24 { 31 } else { 63 }) } else { 0 };
    let want: u64 = if aa == 0 {
        0
    } else {
        let msb = 127 - aa.leading_zeros() as i32;
        let mut e = msb - fnb;
        if e < F::EMIN {
            // subnormal: quantum 2^(EMIN - (PREC-1)); aa * 2^-f / quantum is an exact integer here
            let sh = (prec - 1 - F::EMIN) - fnb; // >= 0 for f <= 128
            let mant = (aa << (sh as u32)) as u64;
            sign_bit | mant
        } else {
            let mut q: u128;
            if msb >= prec - 1 {
                let sh = (msb - (prec - 1)) as u32;
                if sh == 0 {
                    q = aa;
                } else {
                    q = aa >> sh;
                    let rem = aa & ((1u128 << sh) - 1);
                    let half = 1u128 << (sh - 1);
                    if rem > half || (rem == half && (q & 1) == 1) {
                        q += 1;
                    }
                }
                if q == (1u128 << prec) {
                    q >>= 1;
                    e += 1;
                }
            } else {
                q = aa << ((prec - 1 - msb) as u32);
            }
            let bias = F::EMAX;
            if e > F::EMAX {
                sign_bit | (((2 * bias + 1) as u64) << (prec - 1))
            } else {
                sign_bit | (((e + bias) as u64) << (prec - 1)) | ((q as u64) & ((1u64 << (prec - 1)) - 1))
            }
        }
    };
    kani::cover!(aa != 0 && neg == <L::Bits as Raw>::SIGNED, "W:non-zero (negative if signed)");
    let got: F = x.to_num::<F>();
    assert!(got.bits64() == want, "to_num::<float> is the IEEE-754 round-to-nearest-even of the exact value");
    let (got2, o) = x.overflowing_to_num::<F>();
    assert!(!o && got2.bits64() == want, "overflowing_to_num::<float> = (RNE value, false)");
    match x.checked_to_num::<F>() {
        Some(g) => assert!(g.bits64() == want, "checked_to_num::<float> = Some(RNE value)"),
        None => assert!(false, "checked_to_num::<float> is never None"),
    }
}

/// LossyFrom<fixed> for floats is to_num (whose exactness is the to_float obligation)
pub fn lossy_float<L, F>()
where
    L: Fixed,
    F: Flt + substrate_fixed::traits::LossyFrom<L>,
    L::Bits: Raw,
{
    let a = <L::Bits as Raw>::any();
    let x = L::from_bits(a);
    kani::cover!(true, "W:reached");
    assert!(F::lossy_from(x).bits64() == x.to_num::<F>().bits64(), "LossyFrom<fixed> for float = to_num");
}

include!("gen_c05.rs");
