//! C11 harness instantiations (bodies in ar.rs / c04 / c05 / c06 / c07 / c18 / tr.rs)
use crate::ar::*;
use crate::util::*;

include!("gen_c11.rs");
