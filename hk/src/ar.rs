//! Arithmetic harness bodies shared by C01 (exact products/quotients), C02 (the four
//! overflow policies agree on one exact result) and C11 (no checking-profile-only panic).
//! Oracles are exact integer arithmetic on sign/magnitude in wider words, written from the
//! mathematical definition; quotients are specified by multiply-back, never by a second
//! division of the same width.
use crate::util::*;

/// 256-bit two's complement integer.
#[derive(Clone, Copy, PartialEq, Eq, Debug)]
pub struct I256 {
    pub hi: u128,
    pub lo: u128,
}

impl I256 {
    #[inline(always)]
    pub fn from_raw<B: Raw>(b: B) -> I256 {
        let (n, _) = b.neg_abs();
        I256 { hi: if n { u128::MAX } else { 0 }, lo: b.sext() }
    }
    #[inline(always)]
    pub fn add(self, o: I256) -> I256 {
        let (lo, c) = self.lo.overflowing_add(o.lo);
        I256 { hi: self.hi.wrapping_add(o.hi).wrapping_add(c as u128), lo }
    }
    #[inline(always)]
    pub fn neg(self) -> I256 {
        I256 { hi: !self.hi, lo: !self.lo }.add(I256 { hi: 0, lo: 1 })
    }
    #[inline(always)]
    pub fn sub(self, o: I256) -> I256 {
        self.add(o.neg())
    }
    #[inline(always)]
    pub fn is_neg(self) -> bool {
        (self.hi >> 127) != 0
    }
    #[inline(always)]
    pub fn from_sign_mag(neg: bool, hi: u128, lo: u128) -> I256 {
        let v = I256 { hi, lo };
        if neg { v.neg() } else { v }
    }
}

#[derive(Clone, Copy)]
pub struct Want<B> {
    pub wrapped: B,
    pub overflow: bool,
    pub positive: bool,
}

/// reduce the exact result r (in units of the last place) to a W-bit type
#[inline(always)]
pub fn settle<B: Raw>(r: I256) -> Want<B> {
    let w = B::W;
    let fits = if B::SIGNED {
        let t = r.add(I256 { hi: 0, lo: 1u128 << (w - 1) });
        t.hi == 0 && (w == 128 || t.lo < (1u128 << w))
    } else {
        r.hi == 0 && (w == 128 || r.lo < (1u128 << w))
    };
    Want { wrapped: B::trunc(r.lo), overflow: !fits, positive: !r.is_neg() }
}

macro_rules! four_forms {
    ($L:ty, $want:expr, $ovf:expr, $wrp:expr, $chk:expr, $sat:expr, $msg:literal) => {{
        let want = $want;
        let (v, o) = $ovf;
        assert!(o == want.overflow, $msg);
        assert!(v.to_bits() == want.wrapped, $msg);
        assert!($wrp.to_bits() == want.wrapped, $msg);
        match $chk {
            None => assert!(want.overflow, $msg),
            Some(c) => {
                assert!(!want.overflow, $msg);
                assert!(c.to_bits() == want.wrapped, $msg);
            }
        }
        let s = $sat;
        if want.overflow {
            let b = if want.positive { <$L>::max_value() } else { <$L>::min_value() };
            assert!(s.to_bits() == b.to_bits(), $msg);
        } else {
            assert!(s.to_bits() == want.wrapped, $msg);
        }
    }};
}

/// neg, add, sub: every operand pair
pub fn lin<L>()
where
    L: Fixed + core::ops::Add<Output = L> + core::ops::Sub<Output = L>,
    for<'a> &'a L: core::ops::Add<&'a L, Output = L> + core::ops::Sub<&'a L, Output = L>,
    for<'a> L: core::ops::AddAssign<&'a L> + core::ops::SubAssign<&'a L> + core::iter::Sum<&'a L>,
    L: core::iter::Sum<L>,
    L::Bits: Raw,
{
    let a = <L::Bits as Raw>::any();
    let b = <L::Bits as Raw>::any();
    let x = L::from_bits(a);
    let y = L::from_bits(b);
    let ia = I256::from_raw(a);
    let ib = I256::from_raw(b);
    let w_neg = settle::<L::Bits>(ia.neg());
    let w_add = settle::<L::Bits>(ia.add(ib));
    let w_sub = settle::<L::Bits>(ia.sub(ib));
    kani::cover!(w_add.overflow && w_add.positive, "W:add overflows upward");
    kani::cover!(w_sub.overflow && !w_sub.positive, "W:sub overflows downward");
    kani::cover!(w_neg.overflow, "W:neg overflows");
    kani::cover!(!w_neg.overflow, "W:neg fits");
    four_forms!(L, w_neg, x.overflowing_neg(), x.wrapping_neg(), x.checked_neg(), x.saturating_neg(),
        "neg: checked/saturating/wrapping/overflowing agree with the exact result -a");
    four_forms!(L, w_add, x.overflowing_add(y), x.wrapping_add(y), x.checked_add(y), x.saturating_add(y),
        "add: checked/saturating/wrapping/overflowing agree with the exact result a+b");
    four_forms!(L, w_sub, x.overflowing_sub(y), x.wrapping_sub(y), x.checked_sub(y), x.saturating_sub(y),
        "sub: checked/saturating/wrapping/overflowing agree with the exact result a-b");
    if !w_add.overflow {
        assert!((x + y).to_bits() == w_add.wrapped, "a + b is exact when representable");
        let mut t = x;
        t += y;
        let mut u = x;
        u += &y;
        assert!(t.to_bits() == w_add.wrapped && u.to_bits() == w_add.wrapped && (&x + &y).to_bits() == w_add.wrapped, "a += b, a += &b, &a + &b equal a + b");
        let arr = [x, y];
        let s1: L = arr.iter().sum();
        let s2: L = arr.iter().cloned().sum();
        assert!(s1.to_bits() == w_add.wrapped && s2.to_bits() == w_add.wrapped, "sum of [a, b] (by reference and by value) equals a + b");
    }
    if !w_sub.overflow {
        assert!((x - y).to_bits() == w_sub.wrapped, "a - b is exact when representable");
        let mut t = x;
        t -= y;
        let mut u = x;
        u -= &y;
        assert!(t.to_bits() == w_sub.wrapped && u.to_bits() == w_sub.wrapped && (&x - &y).to_bits() == w_sub.wrapped, "a -= b, a -= &b, &a - &b equal a - b");
    }

}

/// abs (signed types only)
pub fn abs<L>()
where
    L: FixedSigned,
    L::Bits: Raw,
{
    let a = <L::Bits as Raw>::any();
    let x = L::from_bits(a);
    let (_, aa) = a.neg_abs();
    let w_abs = settle::<L::Bits>(I256 { hi: 0, lo: aa });
    kani::cover!(w_abs.overflow, "W:abs overflows");
    kani::cover!(!w_abs.overflow, "W:abs fits");
    four_forms!(L, w_abs, x.overflowing_abs(), x.wrapping_abs(), x.checked_abs(), x.saturating_abs(),
        "abs: checked/saturating/wrapping/overflowing agree with the exact result |a|");
    if !w_abs.overflow {
        assert!(FixedSigned::abs(x).to_bits() == w_abs.wrapped, "abs is exact when representable");
        // operator form of negation (a != min here): same value as checked_neg
        match x.checked_neg() {
            Some(n) => assert!((-x).to_bits() == n.to_bits(), "-a equals checked_neg when representable"),
            None => assert!(false, "checked_neg is Some when |a| is representable"),
        }
    }
}

/// exact product floor(a*b / 2^f) for widths up to 64 (|a||b| < 2^128); p = |a|*|b|
#[inline(always)]
pub fn mul_exact_small(neg: bool, p: u128, f: u32) -> I256 {
    let q = if f >= 128 { 0 } else { p >> f };
    let rem_nonzero = if f == 0 { false } else if f >= 128 { p != 0 } else { (p & ((1u128 << f) - 1)) != 0 };
    if neg {
        // floor of a negative number: round the magnitude up
        I256::from_sign_mag(true, 0, q + if rem_nonzero { 1 } else { 0 })
    } else {
        I256 { hi: 0, lo: q }
    }
}

/// One form of an operation per harness (FORM: 0 overflowing, 1 wrapping, 2 checked,
/// 3 saturating, 4 operator): several library multiplications/divisions of the same operands
/// in one query are not merged by the back end and make it stall.
macro_rules! one_form {
    ($L:ty, $FORM:ident, $want:expr, $ovf:expr, $wrp:expr, $chk:expr, $sat:expr, $plain:expr, $msg:literal) => {{
        let want = $want;
        if $FORM == 0 {
            let (v, o) = $ovf;
            assert!(o == want.overflow, $msg);
            assert!(v.to_bits() == want.wrapped, $msg);
        } else if $FORM == 1 {
            assert!($wrp.to_bits() == want.wrapped, $msg);
        } else if $FORM == 2 {
            match $chk {
                None => assert!(want.overflow, $msg),
                Some(c) => {
                    assert!(!want.overflow, $msg);
                    assert!(c.to_bits() == want.wrapped, $msg);
                }
            }
        } else if $FORM == 3 {
            let s = $sat;
            if want.overflow {
                let b = if want.positive { <$L>::max_value() } else { <$L>::min_value() };
                assert!(s.to_bits() == b.to_bits(), $msg);
            } else {
                assert!(s.to_bits() == want.wrapped, $msg);
            }
        } else {
            kani::assume(!want.overflow);
            assert!($plain.to_bits() == want.wrapped, $msg);
        }
    }};
}

/// multiplication, widths 8..64: one form against the exact product
pub fn mul_one<L, const FORM: u8>()
where
    L: Fixed + core::ops::Mul<Output = L>,
    L::Bits: Raw,
{
    let a = <L::Bits as Raw>::any();
    let b = <L::Bits as Raw>::any();
    let x = L::from_bits(a);
    let y = L::from_bits(b);
    let (an, aa) = a.neg_abs();
    let (bn, ba) = b.neg_abs();
    let p = <L::Bits as Raw>::mulw(aa, ba);
    let want = settle::<L::Bits>(mul_exact_small(an != bn, p, L::frac_nbits()));
    kani::cover!(want.overflow || L::int_nbits() == 0, "W:product overflows (or no integer bits)");
    kani::cover!(!want.overflow && aa != 0 && ba != 0, "W:non-zero product fits");
    one_form!(L, FORM, want, x.overflowing_mul(y), x.wrapping_mul(y), x.checked_mul(y), x.saturating_mul(y), x * y,
        "mul form equals floor(a*b/2^f): flag <=> not representable, value mod 2^W, None, bound on the product's side");
}

/// exact overflow criterion and multiply-back test for trunc(|a| 2^f / |b|), widths 8..64
pub struct DivSpec {
    pub n: u128,
    pub ba: u128,
    pub neg: bool,
    pub ovf: bool,
}

#[inline(always)]
pub fn div_spec<B: Raw>(a: B, b: B, f: u32) -> DivSpec {
    let (an, aa) = a.neg_abs();
    let (bn, ba) = b.neg_abs();
    let w = B::W;
    let n = aa << f; // |a| * 2^f < 2^128 for w <= 64
    let neg = an != bn;
    // is trunc(n / ba), with its sign, outside the type?  (no division: shifts and compares)
    let ovf = if !B::SIGNED {
        (n >> w) >= ba
    } else if !neg {
        (n >> (w - 1)) >= ba
    } else {
        n >= ba && (n - ba) >= (ba << (w - 1))
    };
    DivSpec { n, ba, neg, ovf }
}

#[inline(always)]
pub fn is_quotient<B: Raw>(sp: &DivSpec, q: B) -> bool {
    let (qn, qa) = q.neg_abs();
    let back = B::mulw(qa, sp.ba);
    back <= sp.n && sp.n - back < sp.ba && (qa == 0 || qn == sp.neg)
}

/// division, widths 16..64: one form; flag by shift/compare criterion, quotient by multiply-back
pub fn div_one<L, const FORM: u8>()
where
    L: Fixed + core::ops::Div<Output = L>,
    L::Bits: Raw,
{
    let a = <L::Bits as Raw>::any();
    let b = <L::Bits as Raw>::any();
    let x = L::from_bits(a);
    let y = L::from_bits(b);
    let sp = div_spec(a, b, L::frac_nbits());
    kani::assume(sp.ba != 0);
    kani::cover!(sp.ovf || (L::frac_nbits() == 0 && !<L::Bits as Raw>::SIGNED), "W:quotient overflows (or unsigned integer type)");
    kani::cover!(!sp.ovf && sp.n != 0, "W:non-zero quotient fits");
    if FORM == 0 {
        let (q, o) = x.overflowing_div(y);
        assert!(o == sp.ovf, "overflowing_div flag <=> trunc(a*2^f/b) not representable");
        assert!(sp.ovf || is_quotient(&sp, q.to_bits()), "overflowing_div value is trunc(a*2^f/b) (multiply-back)");
    } else if FORM == 1 {
        let q = x.wrapping_div(y);
        assert!(sp.ovf || is_quotient(&sp, q.to_bits()), "wrapping_div is trunc(a*2^f/b) when representable");
    } else if FORM == 2 {
        match x.checked_div(y) {
            None => assert!(sp.ovf, "checked_div is None only on overflow (divisor non-zero)"),
            Some(q) => assert!(!sp.ovf && is_quotient(&sp, q.to_bits()), "checked_div = Some(trunc(a*2^f/b)) iff representable"),
        }
    } else if FORM == 3 {
        let s = x.saturating_div(y);
        if sp.ovf {
            let bound = if sp.neg { L::min_value() } else { L::max_value() };
            assert!(s.to_bits() == bound.to_bits(), "saturating_div clamps to the bound on the quotient's side");
        } else {
            assert!(is_quotient(&sp, s.to_bits()), "saturating_div = trunc(a*2^f/b) when representable");
        }
    } else {
        kani::assume(!sp.ovf);
        assert!(is_quotient(&sp, (x / y).to_bits()), "a / b = trunc(a*2^f/b) when representable");
    }
}

/// division, 8-bit types: all forms in one query, including the wrapped value on overflow
/// (independent 32-bit division; affordable only at this width)
pub fn div8<L>()
where
    L: Fixed + core::ops::Div<Output = L>,
    L::Bits: Raw,
{
    let a = <L::Bits as Raw>::any();
    let b = <L::Bits as Raw>::any();
    let x = L::from_bits(a);
    let y = L::from_bits(b);
    let sp = div_spec(a, b, L::frac_nbits());
    kani::assume(sp.ba != 0);
    kani::cover!(sp.ovf || (L::frac_nbits() == 0 && !<L::Bits as Raw>::SIGNED), "W:quotient overflows (or unsigned integer type)");
    kani::cover!(!sp.ovf && sp.n != 0, "W:non-zero quotient fits");
    let qq = (sp.n as u32) / (sp.ba as u32);
    let r = I256::from_sign_mag(sp.neg, 0, qq as u128);
    let want = Want { wrapped: <L::Bits as Raw>::trunc(r.lo), overflow: sp.ovf, positive: !sp.neg };
    let (q, o) = x.overflowing_div(y);
    assert!(o == want.overflow, "overflowing_div flag <=> trunc(a*2^f/b) not representable");
    assert!(q.to_bits() == want.wrapped, "overflowing_div value = exact quotient mod 2^W");
    assert!(x.wrapping_div(y).to_bits() == want.wrapped, "wrapping_div = exact quotient mod 2^W");
    match x.checked_div(y) {
        None => assert!(want.overflow, "checked_div is None only on overflow"),
        Some(c) => assert!(!want.overflow && c.to_bits() == want.wrapped, "checked_div = Some(exact quotient)"),
    }
    let s = x.saturating_div(y);
    if want.overflow {
        let bound = if sp.neg { L::min_value() } else { L::max_value() };
        assert!(s.to_bits() == bound.to_bits(), "saturating_div clamps to the bound on the quotient's side");
    } else {
        assert!(s.to_bits() == want.wrapped, "saturating_div = exact quotient");
        assert!(is_quotient(&sp, q.to_bits()), "multiply-back oracle agrees with the division oracle");
        assert!((x / y).to_bits() == want.wrapped, "a / b = exact quotient");
    }
}

/// division of EVERY dividend by a constant power-of-two divisor (-1)^NEG 2^K (raw bits), all five forms, any width
/// incl. 64 and 128 bits (the library's dividers fold for such divisors): the exact quotient trunc(a 2^f / b)
/// is (-1)^(sign a xor NEG) (|a| 2^f >> K)
pub fn div_pow2<L, const K: u32, const NEG: bool>()
where
    L: Fixed + core::ops::Div<Output = L>,
    L::Bits: Raw,
{
    let a = <L::Bits as Raw>::any();
    let bmag = 1u128 << K;
    let b = <L::Bits as Raw>::trunc(if NEG { bmag.wrapping_neg() } else { bmag });
    let x = L::from_bits(a);
    let y = L::from_bits(b);
    let (an, aa) = a.neg_abs();
    let f = L::frac_nbits();
    let n = U256::shl_u128(aa, f);
    let mag = if K == 0 {
        n
    } else {
        U256 { hi: n.hi >> K, lo: (n.lo >> K) | (n.hi << (128 - K)) }
    };
    let want = settle_sm::<L::Bits>(an != NEG, mag);
    kani::cover!(want.overflow || mag.lo != 0, "W:quotient overflows or is a non-zero value that fits");
    kani::cover!(want.overflow, "quotient overflows");
    kani::cover!(!want.overflow && (mag.lo != 0), "non-zero quotient fits");
    four_forms!(L, want, x.overflowing_div(y), x.wrapping_div(y), x.checked_div(y), x.saturating_div(y),
        "div by +-2^K: checked/saturating/wrapping/overflowing agree with trunc(a*2^f/b) (flag, value mod 2^W, None, side)");
    if !want.overflow {
        assert!((x / y).to_bits() == want.wrapped, "a / b = trunc(a*2^f/b) when representable");
    }
}

/// division of EVERY dividend by a constant divisor (-1)^NEG (DH 2^64 + DL) (raw bits), 64- and 128-bit types:
/// flag by comparing |a| 2^f with |b| 2^(W-1) (+|b|) resp. |b| 2^W, quotient by 256-bit multiply-back with the constant
pub fn div_const<L, const DH: u64, const DL: u64, const NEG: bool, const FORM: u8>()
where
    L: Fixed + core::ops::Div<Output = L>,
    L::Bits: Raw,
{
    let a = <L::Bits as Raw>::any();
    let ba: u128 = ((DH as u128) << 64) | (DL as u128);
    let b = <L::Bits as Raw>::trunc(if NEG { ba.wrapping_neg() } else { ba });
    let x = L::from_bits(a);
    let y = L::from_bits(b);
    let (an, aa) = a.neg_abs();
    let f = L::frac_nbits();
    let w = <L::Bits as Raw>::W;
    let neg = an != NEG;
    let n = U256::shl_u128(aa, f);
    let signed = <L::Bits as Raw>::SIGNED;
    let lim = if signed {
        let t = U256::shl_u128(ba, w - 1);
        if neg {
            let (lo, c) = t.lo.overflowing_add(ba);
            U256 { hi: t.hi + c as u128, lo }
        } else {
            t
        }
    } else {
        U256::shl_u128(ba, w)
    };
    let ovf = n.cmp(lim) != Ordering::Less;
    kani::cover!(ovf || aa != 0, "W:quotient overflows or dividend non-zero");
    let check_q = |q: L::Bits| {
        let (qn, qa) = q.neg_abs();
        let back = mul256(qa, ba);
        assert!(back.cmp(n) != Ordering::Greater, "quotient: |q||b| <= |a| 2^f");
        let (dlo, br) = n.lo.overflowing_sub(back.lo);
        let dhi = n.hi.wrapping_sub(back.hi).wrapping_sub(br as u128);
        assert!(dhi == 0 && dlo < ba, "quotient: |a| 2^f - |q||b| < |b|");
        assert!(qa == 0 || qn == neg, "quotient has the sign of a/b");
    };
    if FORM == 0 {
        let (q, o) = x.overflowing_div(y);
        assert!(o == ovf, "overflowing_div flag <=> trunc(a*2^f/b) not representable");
        if !ovf {
            check_q(q.to_bits());
        }
    } else if FORM == 2 {
        match x.checked_div(y) {
            None => assert!(ovf, "checked_div is None only on overflow"),
            Some(q) => {
                assert!(!ovf, "checked_div is Some only when representable");
                check_q(q.to_bits());
            }
        }
    } else if FORM == 3 {
        let sq = x.saturating_div(y);
        if ovf {
            let bound = if neg { L::min_value() } else { L::max_value() };
            assert!(sq.to_bits() == bound.to_bits(), "saturating_div clamps to the bound on the quotient's side");
        } else {
            check_q(sq.to_bits());
        }
    } else {
        kani::assume(!ovf);
        check_q((x / y).to_bits());
    }
}

/// multiplication by an integer, widths 8..64: one form
pub fn mulint_one<L, const FORM: u8>()
where
    L: Fixed + core::ops::Mul<<L as Fixed>::Bits, Output = L>,
    L::Bits: Raw,
{
    let a = <L::Bits as Raw>::any();
    let n = <L::Bits as Raw>::any();
    let x = L::from_bits(a);
    let (an, aa) = a.neg_abs();
    let (nn, na) = n.neg_abs();
    let want = settle::<L::Bits>(I256::from_sign_mag(an != nn, 0, <L::Bits as Raw>::mulw(aa, na)));
    kani::cover!(want.overflow, "W:mul_int overflows");
    kani::cover!(!want.overflow && aa != 0 && na > 1, "W:mul_int fits");
    one_form!(L, FORM, want, x.overflowing_mul_int(n), x.wrapping_mul_int(n), x.checked_mul_int(n),
        x.saturating_mul_int(n), x * n,
        "mul_int form equals the exact a*n: flag <=> not representable, value mod 2^W, None, bound on the product's side");
}

/// division by an integer, widths 8..64: one form (FORM 0 overflowing, 1 wrapping, 2 checked, 4 operator)
pub fn divint_one<L, const FORM: u8>()
where
    L: Fixed + core::ops::Div<<L as Fixed>::Bits, Output = L>,
    L::Bits: Raw,
{
    let a = <L::Bits as Raw>::any();
    let n = <L::Bits as Raw>::any();
    let x = L::from_bits(a);
    let sp = div_spec(a, n, 0);
    kani::assume(sp.ba != 0);
    // the only overflow is min / -1, which wraps to min
    kani::cover!(sp.ovf || !<L::Bits as Raw>::SIGNED, "W:div_int overflows (or unsigned)");
    if FORM == 0 {
        let (q, o) = x.overflowing_div_int(n);
        assert!(o == sp.ovf, "overflowing_div_int flag <=> trunc(a/n) not representable (min / -1)");
        assert!(if sp.ovf { q.to_bits() == a } else { is_quotient(&sp, q.to_bits()) }, "overflowing_div_int value = trunc(a/n) mod 2^W");
    } else if FORM == 1 {
        let q = x.wrapping_div_int(n);
        assert!(if sp.ovf { q.to_bits() == a } else { is_quotient(&sp, q.to_bits()) }, "wrapping_div_int = trunc(a/n) mod 2^W");
    } else if FORM == 2 {
        match x.checked_div_int(n) {
            None => assert!(sp.ovf, "checked_div_int None only on overflow (divisor non-zero)"),
            Some(q) => assert!(!sp.ovf && is_quotient(&sp, q.to_bits()), "checked_div_int = Some(trunc(a/n))"),
        }
    } else {
        kani::assume(!sp.ovf);
        assert!(is_quotient(&sp, (x / n).to_bits()), "a / n = trunc(a/n)");
    }
}

/// zero divisor: checked forms return None
pub fn divzero<L>()
where
    L: Fixed,
    L::Bits: Raw,
{
    let a = <L::Bits as Raw>::any();
    let x = L::from_bits(a);
    let z = L::from_bits(<L::Bits as Raw>::trunc(0));
    assert!(x.checked_div(z).is_none(), "checked_div by zero is None");
    assert!(x.checked_div_int(<L::Bits as Raw>::trunc(0)).is_none(), "checked_div_int by zero is None");
    assert!(x.checked_rem(z).is_none(), "checked_rem by zero is None");
    assert!(x.checked_rem_int(<L::Bits as Raw>::trunc(0)).is_none(), "checked_rem_int by zero is None");
    assert!(x.checked_div_euclid(z).is_none(), "checked_div_euclid by zero is None");
    assert!(x.checked_rem_euclid(z).is_none(), "checked_rem_euclid by zero is None");
    kani::cover!(true, "W:end reached");
}


// ---------------------------------------------------------------- 128-bit kernels on operand families

/// Operand families for the 128-bit types (full 2^256 operand space is out of reach of the
/// bit-blasting back end): FAM 0 = eight symbolic bits at the top of each 64-bit limb,
/// FAM 1 = eight symbolic bits at the bottom of each limb, FAM 2 = complement of FAM 0
/// (long carry chains), FAM 3 = complement of FAM 1.
#[inline(always)]
pub fn fam128<const FAM: u8>() -> u128 {
    let h: u8 = kani::any();
    let l: u8 = kani::any();
    let v = if FAM == 0 || FAM == 2 {
        ((h as u128) << 120) | ((l as u128) << 56)
    } else {
        ((h as u128) << 64) | (l as u128)
    };
    if FAM >= 2 { !v } else { v }
}

/// exact |a|*|b| as 256 bits by 64-bit limbs
#[inline(always)]
pub fn mul256(a: u128, b: u128) -> U256 {
    let m = u64::MAX as u128;
    let (ah, al) = (a >> 64, a & m);
    let (bh, bl) = (b >> 64, b & m);
    let ll = al * bl;
    let lh = al * bh;
    let hl = ah * bl;
    let hh = ah * bh;
    // column sums
    let mid = (ll >> 64) + (lh & m) + (hl & m); // < 3 * 2^64
    let lo = (ll & m) | (mid << 64);
    let hi = hh + (lh >> 64) + (hl >> 64) + (mid >> 64);
    U256 { hi, lo }
}

/// floor((-1)^neg * p / 2^f), 0 <= f <= 128
#[inline(always)]
pub fn floor_shr256(neg: bool, p: U256, f: u32) -> I256 {
    let (qhi, qlo, rem) = if f == 0 {
        (p.hi, p.lo, false)
    } else if f >= 128 {
        (0, p.hi, p.lo != 0)
    } else {
        (p.hi >> f, (p.lo >> f) | (p.hi << (128 - f)), (p.lo & ((1u128 << f) - 1)) != 0)
    };
    if neg {
        let (lo, c) = qlo.overflowing_add(if rem { 1 } else { 0 });
        I256::from_sign_mag(true, qhi + c as u128, lo)
    } else {
        I256 { hi: qhi, lo: qlo }
    }
}

/// 128-bit multiplication on operand families: all forms (the multiplier circuits are small here)
pub fn mul128<L, const FA: u8, const FB: u8>()
where
    L: Fixed + core::ops::Mul<Output = L>,
    L::Bits: Raw,
{
    let a = <L::Bits as Raw>::trunc(fam128::<FA>());
    let b = <L::Bits as Raw>::trunc(fam128::<FB>());
    let x = L::from_bits(a);
    let y = L::from_bits(b);
    let (an, aa) = a.neg_abs();
    let (bn, ba) = b.neg_abs();
    let want = settle::<L::Bits>(floor_shr256(an != bn, mul256(aa, ba), L::frac_nbits()));
    kani::cover!(want.overflow || L::int_nbits() <= 1, "W:product overflows (or at most one integer bit)");
    kani::cover!(!want.overflow && aa != 0 && ba != 0, "W:non-zero product fits");
    four_forms!(L, want, x.overflowing_mul(y), x.wrapping_mul(y), x.checked_mul(y), x.saturating_mul(y),
        "128-bit mul: checked/saturating/wrapping/overflowing agree with floor(a*b/2^f) (256-bit limb product)");
    if !want.overflow {
        assert!((x * y).to_bits() == want.wrapped, "128-bit a * b = floor(a*b/2^f) when representable");
    }
}

/// multiplication of EVERY a by a constant power of two (-1)^NEG 2^K (raw bits), any width incl. 128 bits (the schoolbook
/// product folds for such a factor): all five forms equal floor(a * b / 2^f)
pub fn mul_pow2<L, const K: u32, const NEG: bool>()
where
    L: Fixed + core::ops::Mul<Output = L>,
    L::Bits: Raw,
{
    let a = <L::Bits as Raw>::any();
    let bmag = 1u128 << K;
    let b = <L::Bits as Raw>::trunc(if NEG { bmag.wrapping_neg() } else { bmag });
    let x = L::from_bits(a);
    let y = L::from_bits(b);
    let (an, aa) = a.neg_abs();
    let p = U256::shl_u128(aa, K);
    let want = settle::<L::Bits>(floor_shr256(an != NEG, p, L::frac_nbits()));
    kani::cover!(want.overflow || aa != 0, "W:product overflows or is non-zero");
    kani::cover!(!want.overflow && want.wrapped != <L::Bits as Raw>::trunc(0), "non-zero product fits");
    four_forms!(L, want, x.overflowing_mul(y), x.wrapping_mul(y), x.checked_mul(y), x.saturating_mul(y),
        "mul by +-2^K: checked/saturating/wrapping/overflowing agree with floor(a*b/2^f) (flag, value mod 2^W, None, side)");
    four_forms!(L, want, y.overflowing_mul(x), y.wrapping_mul(x), y.checked_mul(x), y.saturating_mul(x),
        "mul by +-2^K (operands swapped): the four forms agree with floor(a*b/2^f)");
    if !want.overflow {
        assert!((x * y).to_bits() == want.wrapped, "a * b = floor(a*b/2^f) when representable");
    }
}

/// 128-bit division on operand families: overflowing_div by multiply-back in 256 bits
pub fn div128<L, const FA: u8, const FB: u8>()
where
    L: Fixed + core::ops::Div<Output = L>,
    L::Bits: Raw,
{
    let a = <L::Bits as Raw>::trunc(fam128::<FA>());
    let b = <L::Bits as Raw>::trunc(fam128::<FB>());
    let x = L::from_bits(a);
    let y = L::from_bits(b);
    let (an, aa) = a.neg_abs();
    let (bn, ba) = b.neg_abs();
    kani::assume(ba != 0);
    let f = L::frac_nbits();
    let neg = an != bn;
    let n = U256::shl_u128(aa, f);
    let (q, o) = x.overflowing_div(y);
    let (qn, qa) = q.to_bits().neg_abs();
    // overflow criterion without division: Q >= 2^127 (+1 when negative) / Q >= 2^128
    let signed = <L::Bits as Raw>::SIGNED;
    let lim = if signed {
        // ba * 2^127 (+ ba when negative)
        let t = U256::shl_u128(ba, 127);
        if neg {
            let (lo, c) = t.lo.overflowing_add(ba);
            U256 { hi: t.hi + c as u128, lo }
        } else {
            t
        }
    } else {
        U256 { hi: ba, lo: 0 }
    };
    let ovf = n.cmp(lim) != Ordering::Less;
    kani::cover!(ovf, "W:quotient overflows");
    kani::cover!(!ovf && aa != 0, "W:quotient fits");
    assert!(o == ovf, "128-bit overflowing_div flag <=> trunc(a*2^f/b) not representable");
    if !ovf {
        let back = mul256(qa, ba);
        // back <= n and n - back < ba
        assert!(back.cmp(n) != Ordering::Greater, "128-bit quotient: |q||b| <= |a| 2^f");
        let (dlo, br) = n.lo.overflowing_sub(back.lo);
        let dhi = n.hi.wrapping_sub(back.hi).wrapping_sub(br as u128);
        assert!(dhi == 0 && dlo < ba, "128-bit quotient: |a| 2^f - |q||b| < |b|");
        assert!(qa == 0 || qn == neg, "128-bit quotient has the sign of a/b");
    }
}

impl I256 {
    /// self * 2^k, 0 <= k <= 128 (exact while |self| < 2^127 * 2^... : callers keep |self| < 2^128)
    #[inline(always)]
    pub fn shl(self, k: u32) -> I256 {
        if k == 0 {
            self
        } else if k >= 128 {
            I256 { hi: self.lo, lo: 0 }
        } else {
            I256 { hi: (self.hi << k) | (self.lo >> (128 - k)), lo: self.lo << k }
        }
    }
    /// floor(self / 2^k), 0 <= k <= 128 (arithmetic shift)
    #[inline(always)]
    pub fn sar(self, k: u32) -> I256 {
        let fill = if self.is_neg() { u128::MAX } else { 0 };
        if k == 0 {
            self
        } else if k >= 128 {
            I256 { hi: fill, lo: self.hi }
        } else {
            I256 { hi: (self.hi >> k) | (fill << (128 - k)), lo: (self.lo >> k) | (self.hi << (128 - k)) }
        }
    }
    /// floor(self * 2^(fd - fs))
    #[inline(always)]
    pub fn rescale(self, fs: u32, fd: u32) -> I256 {
        if fd >= fs { self.shl(fd - fs) } else { self.sar(fs - fd) }
    }
}

/// floor((-1)^neg * aa * 2^(fd - fs)) as sign and 256-bit magnitude (exact for all 128-bit aa, fs, fd <= 128)
#[inline(always)]
pub fn rescale_sm(neg: bool, aa: u128, fs: u32, fd: u32) -> (bool, U256) {
    if fd >= fs {
        (neg && aa != 0, U256::shl_u128(aa, fd - fs))
    } else {
        let k = fs - fd;
        let q = if k >= 128 { 0 } else { aa >> k };
        let rem = if k >= 128 { aa != 0 } else { (aa & ((1u128 << k) - 1)) != 0 };
        let m = if neg && rem { q + 1 } else { q };
        (neg && m != 0, U256 { hi: 0, lo: m })
    }
}

/// reduce an exact sign/magnitude result to a W-bit type
#[inline(always)]
pub fn settle_sm<B: Raw>(neg: bool, mag: U256) -> Want<B> {
    let w = B::W;
    let neg = neg && (mag.hi != 0 || mag.lo != 0);
    let fits = if B::SIGNED {
        let lim = 1u128 << (w - 1);
        mag.hi == 0 && if neg { mag.lo <= lim } else { mag.lo < lim }
    } else {
        !neg && mag.hi == 0 && (w == 128 || mag.lo < (1u128 << w))
    };
    let low = if neg { mag.lo.wrapping_neg() } else { mag.lo };
    Want { wrapped: B::trunc(low), overflow: !fits, positive: !neg }
}
