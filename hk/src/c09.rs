//! C09 – formatting is faithful: printed digits are the correctly rounded value and round-trip.
//! Output is captured in a stack buffer through core::fmt::Write and re-read by the harness.
use crate::util::*;
use core::fmt::Write;
use core::str::FromStr;

pub const CAP: usize = 26;

pub struct Sink {
    pub buf: [u8; CAP],
    pub len: usize,
    pub overflow: bool,
}
impl Sink {
    pub fn new() -> Sink {
        Sink { buf: [0; CAP], len: 0, overflow: false }
    }
    pub fn as_str(&self) -> &str {
        unsafe { core::str::from_utf8_unchecked(&self.buf[..self.len]) }
    }
}
impl Write for Sink {
    fn write_str(&mut self, s: &str) -> core::fmt::Result {
        let b = s.as_bytes();
        let mut i = 0;
        while i < b.len() {
            if self.len >= CAP {
                self.overflow = true;
                return Ok(());
            }
            self.buf[self.len] = b[i];
            self.len += 1;
            i += 1;
        }
        Ok(())
    }
}

/// stub for core::str::from_utf8 (display.rs validates its own ASCII digit buffer; the
/// un-stubbed UTF-8 validator keeps symbolic execution busy for minutes)
pub fn ascii_from_utf8(v: &[u8]) -> Result<&str, core::str::Utf8Error> {
    let mut i = 0;
    while i < v.len() {
        assert!(v[i] < 128, "display buffer is ASCII");
        i += 1;
    }
    Ok(unsafe { core::str::from_utf8_unchecked(v) })
}

pub const POW10: [u64; 16] = [1, 10, 100, 1_000, 10_000, 100_000, 1_000_000, 10_000_000, 100_000_000, 1_000_000_000,
    10_000_000_000, 100_000_000_000, 1_000_000_000_000, 10_000_000_000_000, 100_000_000_000_000, 1_000_000_000_000_000];

/// parsed decimal output: sign, all digits as one integer, number of fraction digits
pub struct Dec {
    pub ok: bool,
    pub neg: bool,
    pub plus: bool,
    pub digits: u64,
    pub k: usize,
    pub int_digits: usize,
}

pub fn read_dec(b: &[u8]) -> Dec {
    let mut d = Dec { ok: true, neg: false, plus: false, digits: 0, k: 0, int_digits: 0 };
    let mut i = 0;
    if i < b.len() && b[i] == b'-' {
        d.neg = true;
        i += 1;
    } else if i < b.len() && b[i] == b'+' {
        d.plus = true;
        i += 1;
    }
    let mut seen_point = false;
    while i < b.len() {
        let c = b[i];
        if c == b'.' {
            if seen_point {
                d.ok = false;
            }
            seen_point = true;
        } else if c >= b'0' && c <= b'9' {
            d.digits = d.digits * 10 + (c - b'0') as u64;
            if seen_point {
                d.k += 1;
            } else {
                d.int_digits += 1;
            }
        } else {
            d.ok = false;
        }
        i += 1;
    }
    if d.int_digits == 0 || (seen_point && d.k == 0) {
        d.ok = false;
    }
    d
}

/// is P/10^k the correct rounding (nearest, ties to even digit) of aa/2^f at k fraction digits?
#[inline(always)]
pub fn correctly_rounded(aa: u64, f: u32, p: u64, k: usize) -> bool {
    let exact = aa * POW10[k]; // value * 10^k * 2^f
    let shown = p << f;
    let diff = if exact >= shown { exact - shown } else { shown - exact };
    let ulp = 1u64 << f;
    2 * diff < ulp || (2 * diff == ulp && (p & 1) == 0)
}

/// Region of the open known finding kf_c09_close_to_zero: while producing fraction digits the library stops as soon as
/// the remaining fraction register (of its working word of `cb` bits) is within 10 units of zero, also when that
/// remainder is a genuine non-zero part of the value.  The region is exactly where that rule CHANGES the output: the
/// rule fires at a digit position before the last one of the digit budget, with a non-zero remainder, and digit
/// generation had not stopped at that position or earlier by the shortest-round-trip rule (auto precision only).
#[inline(always)]
pub fn close_to_zero_fires(frac_bits: u64, f: u32, w: u32, max_digits: usize, auto_prec: bool) -> bool {
    // working word: the type's own word, halved while f < word/2 (the library's attempt_half fast path; never below u8)
    let mut cb: u32 = w;
    while cb > 8 && f < cb / 2 {
        cb /= 2;
    }
    let mask: u128 = (1u128 << cb) - 1;
    let mut reg: u128 = ((frac_bits as u128) << (cb - f)) & mask;
    // scaled half ulp of the shortest-round-trip rule: MSB >> f, or +5 after the first multiplication when f fills the word
    let mut tie: u128 = if f == cb { 0 } else { (1u128 << (cb - 1)) >> f };
    let mut add_5 = f == cb;
    let mut i = 0;
    let mut fired = false;
    while i < max_digits {
        reg = (reg * 10) & mask;
        let negr = ((1u128 << cb) - reg) & mask;
        let close = reg < 10 || negr < 10;
        let mut tie_stop = false;
        if auto_prec {
            tie = (tie * 10) & mask;
            if add_5 {
                tie = (tie + 5) & mask;
                add_5 = false;
            }
            tie_stop = reg < tie || negr < tie;
        }
        if close {
            fired = reg != 0 && i + 1 < max_digits && !tie_stop;
            break;
        }
        if tie_stop {
            break;
        }
        i += 1;
    }
    fired
}

/// the library's digit budget for a fraction of f bits: ceil(f * log10 2)
#[inline(always)]
pub fn digit_budget(f: u32) -> usize {
    (((f as u64) * 0x4D10_4D43 + 0xFFFF_FFFF) >> 32) as usize
}

macro_rules! c09_display {
    // default Display: correct rounding at the digits shown, sign
    ($name:ident, $L:ty, $I:ty, $F:expr) => {
        #[kani::proof]
        #[kani::unwind(28)]
        #[kani::stub(core::str::from_utf8, ascii_from_utf8)]
        pub fn $name() {
            let bits: $I = kani::any();
            let x = <$L>::from_bits(bits);
            let (neg, aa) = bits.neg_abs();
            let aa = aa as u64;
            if cfg!(feature = "kf_c09_close_to_zero") {
                let fm: u64 = if $F == 0 { 0 } else { (1u64 << $F) - 1 };
                kani::assume(!close_to_zero_fires(aa & fm, $F, <$I>::BITS, digit_budget($F), true));
            }
            let mut s = Sink::new();
            let r = write!(s, "{}", x);
            assert!(r.is_ok() && !s.overflow, "Display succeeds");
            let d = read_dec(&s.buf[..s.len]);
            assert!(d.ok && d.k <= 12, "Display output is [-]digits[.digits]");
            assert!(d.neg == (neg && aa != 0) && !d.plus, "sign printed exactly for negative values");
            assert!(correctly_rounded(aa, $F, d.digits, d.k), "printed digits are the value correctly rounded at the digits shown");
            kani::cover!(d.k >= 2 || digit_budget($F) < 2, "W:two or more fraction digits (or a digit budget below two)");
        }
    };
}

macro_rules! c09_roundtrip {
    // FromStr(Display(x)) == x through the real parser; Debug prints like Display
    ($name:ident, $L:ty, $I:ty, $F:expr) => {
        #[kani::proof]
        #[kani::unwind(28)]
        #[kani::stub(core::str::from_utf8, ascii_from_utf8)]
        pub fn $name() {
            let bits: $I = kani::any();
            let x = <$L>::from_bits(bits);
            let (_neg, aa) = bits.neg_abs();
            if cfg!(feature = "kf_c09_close_to_zero") {
                let fm: u64 = if $F == 0 { 0 } else { (1u64 << $F) - 1 };
                kani::assume(!close_to_zero_fires((aa as u64) & fm, $F, <$I>::BITS, digit_budget($F), true));
            }
            let mut s = Sink::new();
            let r = write!(s, "{:?}", x);
            assert!(r.is_ok() && !s.overflow, "Debug succeeds");
            kani::cover!(s.len >= 4 || $F == 0, "W:at least four characters (or integer type)");
            match <$L>::from_str(s.as_str()) {
                Ok(y) => assert!(y.to_bits() == bits, "FromStr(output) == x"),
                Err(_) => assert!(false, "default output parses"),
            }
        }
    };
}

macro_rules! c09_prec {
    // requested precision p (symbolic, 0..=PMAX): exactly p fraction digits, correctly rounded
    ($name:ident, $L:ty, $I:ty, $F:expr, $PMAX:expr) => {
        #[kani::proof]
        #[kani::unwind(28)]
        #[kani::stub(core::str::from_utf8, ascii_from_utf8)]
        pub fn $name() {
            let bits: $I = kani::any();
            let x = <$L>::from_bits(bits);
            let (neg, aa) = bits.neg_abs();
            let aa = aa as u64;
            let p: usize = kani::any();
            kani::assume(p <= $PMAX);
            if cfg!(feature = "kf_c09_close_to_zero") {
                let fm: u64 = if $F == 0 { 0 } else { (1u64 << $F) - 1 };
                kani::assume(!close_to_zero_fires(aa & fm, $F, <$I>::BITS, p, false));
            }
            let mut s = Sink::new();
            let r = write!(s, "{:.*}", p, x);
            assert!(r.is_ok() && !s.overflow, "Display with precision succeeds");
            let d = read_dec(&s.buf[..s.len]);
            kani::cover!(p == $PMAX, "W:largest precision");
            assert!(d.ok || (p == 0 && d.k == 0), "output is [-]digits[.digits]");
            assert!(d.k == p, "exactly the requested number of fraction digits");
            assert!(correctly_rounded(aa, $F, d.digits, d.k), "printed digits are the value correctly rounded at the requested precision");
        }
    };
}

/// digits of a binary / octal / hexadecimal output as one integer and the number of fraction digits
pub fn read_radix(b: &[u8], digit_bits: u32, upper: bool) -> (bool, bool, u64, u32) {
    let mut ok = true;
    let mut neg = false;
    let mut n: u64 = 0;
    let mut k: u32 = 0;
    let mut seen_point = false;
    let mut ndig = 0;
    let mut i = 0;
    if i < b.len() && b[i] == b'-' {
        neg = true;
        i += 1;
    }
    while i < b.len() {
        let c = b[i];
        if c == b'.' {
            if seen_point { ok = false; }
            seen_point = true;
        } else {
            let v: u8 = if c >= b'0' && c <= b'9' { c - b'0' }
                else if !upper && c >= b'a' && c <= b'f' { c - b'a' + 10 }
                else if upper && c >= b'A' && c <= b'F' { c - b'A' + 10 }
                else { ok = false; 0 };
            if (v as u32) >= (1u32 << digit_bits) { ok = false; }
            n = (n << digit_bits) | v as u64;
            ndig += 1;
            if seen_point { k += 1; }
        }
        i += 1;
    }
    if ndig == 0 || (seen_point && k == 0) { ok = false; }
    (ok, neg, n, k)
}

macro_rules! c09_radix {
    // binary / octal / hex print the exact value: N / radix^k == |bits| / 2^f
    ($name:ident, $L:ty, $I:ty, $F:expr, $WHICH:expr) => {
        #[kani::proof]
        #[kani::unwind(28)]
        #[kani::stub(core::str::from_utf8, ascii_from_utf8)]
        pub fn $name() {
            let bits: $I = kani::any();
            let x = <$L>::from_bits(bits);
            let (neg, aa) = bits.neg_abs();
            let mut s = Sink::new();
            let r = if $WHICH == 0 { write!(s, "{:b}", x) } else if $WHICH == 1 { write!(s, "{:o}", x) }
                else if $WHICH == 2 { write!(s, "{:x}", x) } else { write!(s, "{:X}", x) };
            assert!(r.is_ok() && !s.overflow, "radix formatting succeeds");
            let db: u32 = if $WHICH == 0 { 1 } else if $WHICH == 1 { 3 } else { 4 };
            let (ok, pneg, n, k) = read_radix(&s.buf[..s.len], db, $WHICH == 3);
            kani::cover!(k >= 1 || $F == 0, "W:fraction digits printed (or integer type)");
            assert!(ok, "output is [-]digits[.digits] of the radix, with the digit case of the format");
            assert!(pneg == (neg && aa != 0), "sign printed exactly for negative values");
            // N * 2^f == |bits| * 2^(db*k)
            assert!((n << $F) == ((aa as u64) << (db * k)), "binary/octal/hex output is the exact value");
        }
    };
}

macro_rules! c09_flags {
    // width / fill / alignment / + / # / 0 only add padding, sign and prefix around the flag-free output
    ($name:ident, $L:ty, $I:ty, $F:expr, $WHICH:expr) => {
        #[kani::proof]
        #[kani::unwind(28)]
        #[kani::stub(core::str::from_utf8, ascii_from_utf8)]
        pub fn $name() {
            let bits: $I = kani::any();
            let x = <$L>::from_bits(bits);
            let (neg, aa) = bits.neg_abs();
            let neg = neg && aa != 0;
            let w: usize = kani::any();
            kani::assume(w <= 12);
            let which: u8 = $WHICH;
            let mut plain = Sink::new();
            let mut s = Sink::new();
            let (r0, r) = if which == 0 { (write!(plain, "{}", x), write!(s, "{:+}", x)) }
                else if which == 1 { (write!(plain, "{}", x), write!(s, "{:>1$}", x, w)) }
                else if which == 2 { (write!(plain, "{}", x), write!(s, "{:*<1$}", x, w)) }
                else if which == 3 { (write!(plain, "{}", x), write!(s, "{:01$}", x, w)) }
                else if which == 4 { (write!(plain, "{:x}", x), write!(s, "{:#x}", x)) }
                else if which == 6 {
                    // width together with a precision that may exceed the stored digits (trailing zeros are part of the number)
                    let p: usize = kani::any();
                    kani::assume(p <= 4);
                    (write!(plain, "{:.*}", p, x), write!(s, "{:>1$.2$}", x, w, p))
                }
                else { (write!(plain, "{}", x), write!(s, "{:^+1$}", x, w)) };
            assert!(r0.is_ok() && r.is_ok() && !s.overflow && !plain.overflow, "formatting with flags succeeds");
            kani::cover!(w == 12, "W:widest");
            let body_start = if neg { 1 } else { 0 }; // plain output carries '-' for negatives
            let body_len = plain.len - body_start;
            let want_sign: usize = if neg || which == 0 || which == 5 { 1 } else { 0 };
            let want_prefix: usize = if which == 4 { 2 } else { 0 };
            let min_len = want_sign + want_prefix + body_len;
            let total = if which == 0 || which == 4 { min_len } else if w > min_len { w } else { min_len };
            assert!(s.len == total, "flags only add padding, sign and prefix");
            let pad = total - min_len;
            let (pl, pz) = if which == 1 || which == 6 { (pad, 0) } else if which == 3 { (0, pad) } else if which == 5 { (pad / 2, 0) } else { (0, 0) };
            if want_sign == 1 {
                let c = s.buf[pl];
                assert!(c == if neg { b'-' } else { b'+' }, "sign is printed once, after left padding");
            }
            if which == 4 {
                assert!(s.buf[want_sign] == b'0' && s.buf[want_sign + 1] == b'x', "# adds the radix prefix after the sign");
            }
            let mut i = 0;
            while i < body_len {
                assert!(s.buf[pl + want_sign + want_prefix + pz + i] == plain.buf[body_start + i], "digits are those of the flag-free output");
                i += 1;
            }
            let mut j = 0;
            while j < pz {
                assert!(s.buf[want_sign + j] == b'0', "zero padding sits between sign and digits");
                j += 1;
            }
            if which == 2 {
                let mut j = 0;
                while j < pad {
                    assert!(s.buf[min_len + j] == b'*', "fill character pads on the right for '<'");
                    j += 1;
                }
            }
        }
    };
}

// ---------------------------------------------------------------------------------------------
// digit-generation kernels of display.rs, driven directly through the verif_display_kernels hook (all word sizes)

/// x * 10 = digit * 2^W + low for every x
macro_rules! c09_mul10 {
    ($name:ident, $kfn:ident, $U:ty) => {
        #[kani::proof]
        pub fn $name() {
            let x: $U = kani::any();
            let (low, digit) = substrate_fixed::verif_display_kernels::$kfn(x);
            let p = crate::ar::mul256(x as u128, 10);
            let w = <$U>::BITS;
            let (want_low, want_digit) = if w == 128 { (p.lo, p.hi) } else { (p.lo & ((1u128 << w) - 1), p.lo >> w) };
            kani::cover!(digit == 9, "W:largest digit");
            assert!(low as u128 == want_low && digit as u128 == want_digit, "mul10_assign: x * 10 = digit * 2^W + low");
        }
    };
}

/// write_frac_dec with a requested precision (auto_prec = false): for EVERY fraction register of the word and a requested
/// number of digits n <= NMAX: the k digits kept are the first k digits of the exact expansion of frac / 2^W, the returned
/// ordering compares the remainder after k digits with one half, and k < n only by the documented "very close to zero /
/// very close to the next digit" cut-off (remainder register within 10 units of 0 mod 2^W)
macro_rules! c09_frac_dec {
    ($name:ident, $kfn:ident, $U:ty, $NBITS:expr, $NMAX:expr, $UNW:expr) => {
        #[kani::proof]
        #[kani::unwind($UNW)]
        pub fn $name() {
            let w = <$U>::BITS;
            let raw: $U = kani::any();
            // the caller passes the fraction left-aligned in the word with the bits below nbits clear
            let nbits: u32 = $NBITS;
            let frac: $U = if nbits == w { raw } else { (raw >> (w - nbits)) << (w - nbits) };
            let n: u32 = kani::any();
            kani::assume(n >= 1 && n <= $NMAX);
            let (kept, digits, ord) = substrate_fixed::verif_display_kernels::$kfn(frac, nbits, false, n);
            assert!(kept >= 1 && kept <= n as usize, "between one and the requested number of digits are kept");
            // working word: the word itself, halved while the fraction fits the lower half (documented delegation to the
            // half-width helper; never below 8 bits) - the cut-off threshold is in units of that word
            let wfull = w;
            let mut w = wfull;
            while w > 8 && nbits < w / 2 {
                w /= 2;
            }
            // exact register after i digits: (frac * 10^i) mod 2^W; digit i = floor(10 * reg_{i-1} / 2^W)
            let mut reg: u128 = (frac as u128) >> (wfull - w);
            let mask: u128 = if w == 128 { u128::MAX } else { (1u128 << w) - 1 };
            let mut i = 0usize;
            let mut close_at_end = false;
            while i < kept {
                let p = crate::ar::mul256(reg, 10);
                let (low, digit) = if w == 128 { (p.lo, p.hi) } else { (p.lo & mask, p.lo >> w) };
                assert!(digits[i] as u128 == digit, "digit i is the i-th digit of the exact decimal expansion");
                reg = low;
                let negreg = (0u128.wrapping_sub(reg)) & mask;
                close_at_end = reg < 10 || negreg < 10;
                if i + 1 < kept {
                    assert!(!close_at_end, "digits continue only while the remainder is not within 10 units of zero");
                }
                i += 1;
            }
            assert!(kept == n as usize || close_at_end, "fewer digits than requested only by the close-to-zero cut-off");
            let half: u128 = 1u128 << (w - 1);
            let want = if reg < half { Ordering::Less } else if reg == half { Ordering::Equal } else { Ordering::Greater };
            assert!(ord == want, "returned ordering compares the remainder with one half");
            kani::cover!(kept == $NMAX as usize, "W:all requested digits kept");
        }
    };
}

/// write_int_dec: the digits are the decimal expansion of the integer, most significant first
macro_rules! c09_int_dec {
    ($name:ident, $kfn:ident, $U:ty, $ND:expr, $UNW:expr) => {
        #[kani::proof]
        #[kani::unwind($UNW)]
        pub fn $name() {
            let x: $U = kani::any();
            let nd: u32 = $ND;
            // the caller allocates ceil(used_bits * log10 2) digits: enough for x < 10^nd
            let mut pow: u128 = 1;
            let mut i = 0;
            while i < nd { pow = pow.wrapping_mul(10); i += 1; }
            kani::assume(nd >= 39 || (x as u128) < pow);
            let used = <$U>::BITS - x.leading_zeros();
            let digits = substrate_fixed::verif_display_kernels::$kfn(x, used, nd);
            // Horner: sum digits[i] * 10^(nd-1-i) == x
            let mut acc: u128 = 0;
            let mut j = 0usize;
            while j < nd as usize {
                assert!(digits[j] < 10, "decimal digit");
                acc = acc.wrapping_mul(10).wrapping_add(digits[j] as u128);
                j += 1;
            }
            kani::cover!(x != 0, "W:non-zero integer");
            assert!(acc == x as u128, "write_int_dec: digits are the decimal expansion of the integer");
        }
    };
}

/// witness of the open known finding kf_c09_close_to_zero (concrete value)
#[kani::proof]
#[kani::unwind(28)]
#[kani::stub(core::str::from_utf8, ascii_from_utf8)]
pub fn kfw_c09_close_to_zero() {
    use substrate_fixed::types::U0F8;
    let x = U0F8::from_bits(103);
    let mut s = Sink::new();
    let _ = write!(s, "{}", x);
    match U0F8::from_str(s.as_str()) {
        Ok(y) => assert!(y.to_bits() == 103, "U0F8 103/256 round-trips through Display/FromStr"),
        Err(_) => assert!(false, "Display output parses"),
    }
}

include!("gen_c09.rs");
