//! C09 – formatting is faithful: printed digits are the correctly rounded value and round-trip.
//! Output is captured in a stack buffer through core::fmt::Write and re-read by the harness.
use crate::util::*;
use core::fmt::Write;
use core::str::FromStr;

pub const CAP: usize = 48;

pub struct Sink {
    pub buf: [u8; CAP],
    pub len: usize,
    pub overflow: bool,
}
impl Sink {
    pub fn new() -> Sink {
        Sink { buf: [0; CAP], len: 0, overflow: false }
    }
    pub fn as_str(&self) -> &str {
        unsafe { core::str::from_utf8_unchecked(&self.buf[..self.len]) }
    }
}
impl Write for Sink {
    fn write_str(&mut self, s: &str) -> core::fmt::Result {
        let b = s.as_bytes();
        let mut i = 0;
        while i < b.len() {
            if self.len >= CAP {
                self.overflow = true;
                return Ok(());
            }
            self.buf[self.len] = b[i];
            self.len += 1;
            i += 1;
        }
        Ok(())
    }
}

/// stub for core::str::from_utf8 (display.rs validates its own ASCII digit buffer; the
/// un-stubbed UTF-8 validator keeps symbolic execution busy for minutes)
pub fn ascii_from_utf8(v: &[u8]) -> Result<&str, core::str::Utf8Error> {
    let mut i = 0;
    while i < v.len() {
        assert!(v[i] < 128, "display buffer is ASCII");
        i += 1;
    }
    Ok(unsafe { core::str::from_utf8_unchecked(v) })
}

pub const POW10: [u64; 16] = [1, 10, 100, 1_000, 10_000, 100_000, 1_000_000, 10_000_000, 100_000_000, 1_000_000_000,
    10_000_000_000, 100_000_000_000, 1_000_000_000_000, 10_000_000_000_000, 100_000_000_000_000, 1_000_000_000_000_000];

/// parsed decimal output: sign, all digits as one integer, number of fraction digits
pub struct Dec {
    pub ok: bool,
    pub neg: bool,
    pub plus: bool,
    pub digits: u64,
    pub k: usize,
    pub int_digits: usize,
}

pub fn read_dec(b: &[u8]) -> Dec {
    let mut d = Dec { ok: true, neg: false, plus: false, digits: 0, k: 0, int_digits: 0 };
    let mut i = 0;
    if i < b.len() && b[i] == b'-' {
        d.neg = true;
        i += 1;
    } else if i < b.len() && b[i] == b'+' {
        d.plus = true;
        i += 1;
    }
    let mut seen_point = false;
    while i < b.len() {
        let c = b[i];
        if c == b'.' {
            if seen_point {
                d.ok = false;
            }
            seen_point = true;
        } else if c >= b'0' && c <= b'9' {
            d.digits = d.digits * 10 + (c - b'0') as u64;
            if seen_point {
                d.k += 1;
            } else {
                d.int_digits += 1;
            }
        } else {
            d.ok = false;
        }
        i += 1;
    }
    if d.int_digits == 0 || (seen_point && d.k == 0) {
        d.ok = false;
    }
    d
}

/// is P/10^k the correct rounding (nearest, ties to even digit) of aa/2^f at k fraction digits?
#[inline(always)]
pub fn correctly_rounded(aa: u64, f: u32, p: u64, k: usize) -> bool {
    let exact = aa * POW10[k]; // value * 10^k * 2^f
    let shown = p << f;
    let diff = if exact >= shown { exact - shown } else { shown - exact };
    let ulp = 1u64 << f;
    2 * diff < ulp || (2 * diff == ulp && (p & 1) == 0)
}

/// Region of the open known finding kf_c09_close_to_zero: while producing fraction digits the
/// library stops as soon as the remaining fraction register (of its working word of `cb` bits) is
/// within 10 units of zero, also when that remainder is a genuine non-zero part of the value.
#[inline(always)]
pub fn close_to_zero_fires(frac_bits: u64, f: u32, max_digits: usize) -> bool {
    // working word: the smallest of 8/16/32/64 bits with f >= cb/2 (u8 for f < 8)
    let cb: u32 = if f < 8 { 8 } else if f < 16 { 16 } else if f < 32 { 32 } else { 64 };
    let mask: u128 = (1u128 << cb) - 1;
    let mut reg: u128 = ((frac_bits as u128) << (cb - f)) & mask;
    let mut i = 0;
    let mut fired = false;
    while i < max_digits {
        reg = (reg * 10) & mask;
        let negr = ((1u128 << cb) - reg) & mask;
        if reg != 0 && (reg < 10 || negr < 10) {
            fired = true;
        }
        if reg < 10 || negr < 10 {
            break;
        }
        i += 1;
    }
    fired
}

macro_rules! c09_display {
    // default Display/Debug: correct rounding at the shown digits + round trip through FromStr
    ($name:ident, $L:ty, $I:ty, $F:expr) => {
        #[kani::proof]
        #[kani::unwind(52)]
        #[kani::stub(core::str::from_utf8, ascii_from_utf8)]
        pub fn $name() {
            let bits: $I = kani::any();
            let x = <$L>::from_bits(bits);
            let (neg, aa) = bits.neg_abs();
            let aa = aa as u64;
            if cfg!(feature = "kf_c09_close_to_zero") {
                let fm: u64 = if $F == 0 { 0 } else { (1u64 << $F) - 1 };
                kani::assume(!close_to_zero_fires(aa & fm, $F, 12));
            }
            let mut s = Sink::new();
            let r = write!(s, "{}", x);
            assert!(r.is_ok() && !s.overflow, "Display succeeds");
            let d = read_dec(&s.buf[..s.len]);
            assert!(d.ok && d.k <= 12, "Display output is [-]digits[.digits]");
            assert!(d.neg == (neg && aa != 0) && !d.plus, "sign printed exactly for negative values");
            assert!(correctly_rounded(aa, $F, d.digits, d.k), "printed digits are the value correctly rounded at the digits shown");
            kani::cover!(d.k >= 2, "W:two or more fraction digits (or integer type)" );
            match <$L>::from_str(s.as_str()) {
                Ok(y) => assert!(y.to_bits() == bits, "FromStr(Display(x)) == x"),
                Err(_) => assert!(false, "Display output parses"),
            }
            let mut s2 = Sink::new();
            let r2 = write!(s2, "{:?}", x);
            assert!(r2.is_ok() && s2.len == s.len, "Debug prints like Display");
            let mut i = 0;
            while i < s.len {
                assert!(s2.buf[i] == s.buf[i], "Debug prints like Display");
                i += 1;
            }
        }
    };
}

macro_rules! c09_prec {
    // requested precision p (symbolic, 0..=PMAX): exactly p fraction digits, correctly rounded
    ($name:ident, $L:ty, $I:ty, $F:expr, $PMAX:expr) => {
        #[kani::proof]
        #[kani::unwind(52)]
        #[kani::stub(core::str::from_utf8, ascii_from_utf8)]
        pub fn $name() {
            let bits: $I = kani::any();
            let x = <$L>::from_bits(bits);
            let (neg, aa) = bits.neg_abs();
            let aa = aa as u64;
            let p: usize = kani::any();
            kani::assume(p <= $PMAX);
            if cfg!(feature = "kf_c09_close_to_zero") {
                let fm: u64 = if $F == 0 { 0 } else { (1u64 << $F) - 1 };
                kani::assume(!close_to_zero_fires(aa & fm, $F, p));
            }
            let mut s = Sink::new();
            let r = write!(s, "{:.*}", p, x);
            assert!(r.is_ok() && !s.overflow, "Display with precision succeeds");
            let d = read_dec(&s.buf[..s.len]);
            kani::cover!(p == $PMAX, "W:largest precision");
            assert!(d.ok || (p == 0 && d.k == 0), "output is [-]digits[.digits]");
            assert!(d.k == p, "exactly the requested number of fraction digits");
            assert!(correctly_rounded(aa, $F, d.digits, d.k), "printed digits are the value correctly rounded at the requested precision");
        }
    };
}

macro_rules! c09_radix {
    // binary / octal / hex print the exact value
    ($name:ident, $L:ty, $I:ty, $F:expr) => {
        #[kani::proof]
        #[kani::unwind(52)]
        #[kani::stub(core::str::from_utf8, ascii_from_utf8)]
        pub fn $name() {
            let bits: $I = kani::any();
            let x = <$L>::from_bits(bits);
            let which: u8 = kani::any();
            kani::assume(which < 4);
            let mut s = Sink::new();
            let r = if which == 0 { write!(s, "{:b}", x) } else if which == 1 { write!(s, "{:o}", x) }
                else if which == 2 { write!(s, "{:x}", x) } else { write!(s, "{:X}", x) };
            assert!(r.is_ok() && !s.overflow, "radix formatting succeeds");
            kani::cover!(which == 3, "W:upper hex");
            // exact: parsing the output in that radix returns the same value
            let back = if which == 0 { <$L>::from_str_binary(s.as_str()) } else if which == 1 { <$L>::from_str_octal(s.as_str()) }
                else { <$L>::from_str_hex(s.as_str()) };
            match back {
                Ok(y) => assert!(y.to_bits() == bits, "binary/octal/hex output is the exact value (parses back to it)"),
                Err(_) => assert!(false, "binary/octal/hex output parses"),
            }
            // no lower-case letters in {:X}, no upper-case in {:x}
            let mut i = 0;
            while i < s.len {
                let c = s.buf[i];
                assert!(!(which == 3 && c >= b'a' && c <= b'f') && !(which == 2 && c >= b'A' && c <= b'F'), "hex digit case follows the format");
                i += 1;
            }
        }
    };
}

macro_rules! c09_flags {
    // width / fill / alignment / + / # / 0 only add padding, sign and prefix around the flag-free output
    ($name:ident, $L:ty, $I:ty, $F:expr) => {
        #[kani::proof]
        #[kani::unwind(52)]
        #[kani::stub(core::str::from_utf8, ascii_from_utf8)]
        pub fn $name() {
            let bits: $I = kani::any();
            let x = <$L>::from_bits(bits);
            let (neg, aa) = bits.neg_abs();
            let neg = neg && aa != 0;
            let w: usize = kani::any();
            kani::assume(w <= 14);
            let which: u8 = kani::any();
            kani::assume(which < 6);
            let mut plain = Sink::new();
            let mut s = Sink::new();
            let (r0, r) = if which == 0 { (write!(plain, "{}", x), write!(s, "{:+}", x)) }
                else if which == 1 { (write!(plain, "{}", x), write!(s, "{:>1$}", x, w)) }
                else if which == 2 { (write!(plain, "{}", x), write!(s, "{:*<1$}", x, w)) }
                else if which == 3 { (write!(plain, "{}", x), write!(s, "{:01$}", x, w)) }
                else if which == 4 { (write!(plain, "{:x}", x), write!(s, "{:#x}", x)) }
                else { (write!(plain, "{}", x), write!(s, "{:^+1$}", x, w)) };
            assert!(r0.is_ok() && r.is_ok() && !s.overflow && !plain.overflow, "formatting with flags succeeds");
            kani::cover!(which == 5 && w == 14, "W:centred, widest");
            // strip padding / sign / prefix and compare with the flag-free digits
            let body_start = if neg { 1 } else { 0 }; // plain output carries '-' for negatives
            let body_len = plain.len - body_start;
            let want_sign: usize = if neg || which == 0 || which == 5 { 1 } else { 0 };
            let want_prefix: usize = if which == 4 { 2 } else { 0 };
            let min_len = want_sign + want_prefix + body_len;
            let total = if which == 0 || which == 4 { min_len } else if w > min_len { w } else { min_len };
            assert!(s.len == total, "flags only add padding, sign and prefix");
            let pad = total - min_len;
            let (pl, pz) = if which == 1 { (pad, 0) } else if which == 3 { (0, pad) } else if which == 5 { (pad / 2, 0) } else { (0, 0) };
            // sign position
            if want_sign == 1 {
                let c = s.buf[pl];
                assert!(c == if neg { b'-' } else { b'+' }, "sign is printed once, after left padding");
            }
            if which == 4 {
                assert!(s.buf[want_sign] == b'0' && s.buf[want_sign + 1] == b'x', "# adds the radix prefix after the sign");
            }
            let mut i = 0;
            while i < body_len {
                assert!(s.buf[pl + want_sign + want_prefix + pz + i] == plain.buf[body_start + i], "digits are those of the flag-free output");
                i += 1;
            }
            let mut j = 0;
            while j < pz {
                assert!(s.buf[want_sign + j] == b'0', "zero padding sits between sign and digits");
                j += 1;
            }
            if which == 2 {
                let mut j = 0;
                while j < pad {
                    assert!(s.buf[min_len + j] == b'*', "fill character pads on the right for '<'");
                    j += 1;
                }
            }
        }
    };
}

/// witness of the open known finding kf_c09_close_to_zero (concrete value)
#[kani::proof]
#[kani::unwind(52)]
#[kani::stub(core::str::from_utf8, ascii_from_utf8)]
pub fn kfw_c09_close_to_zero() {
    use substrate_fixed::types::U0F8;
    let x = U0F8::from_bits(103);
    let mut s = Sink::new();
    let _ = write!(s, "{}", x);
    match U0F8::from_str(s.as_str()) {
        Ok(y) => assert!(y.to_bits() == 103, "U0F8 103/256 round-trips through Display/FromStr"),
        Err(_) => assert!(false, "Display output parses"),
    }
}

include!("gen_c09.rs");
