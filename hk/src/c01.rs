//! C01 harness instantiations (bodies in ar.rs)
use crate::util::*;
use crate::ar::*;

include!("gen_c01.rs");
