//! C10 – SCALE encoding and byte views are the plain little-endian bits.
use crate::util::*;
use codec::{Decode, Encode, MaxEncodedLen};

/// value -> bytes direction (every bit pattern of the type)
macro_rules! c10_enc {
    ($name:ident, $F:ty, $I:ty, $N:expr) => {
        #[kani::proof]
        #[kani::unwind(18)]
        pub fn $name() {
            let bits: $I = kani::any();
            let x = <$F>::from_bits(bits);
            let le = bits.to_le_bytes();
            let be = bits.to_be_bytes();
            kani::cover!(bits != 0 && bits.leading_zeros() == 0, "W:top bit set");
            assert!(x.to_bits() == bits, "to_bits(from_bits(b)) == b");
            let xl = x.to_le_bytes();
            let xb = x.to_be_bytes();
            let xn = x.to_ne_bytes();
            let mut i = 0;
            while i < $N {
                assert!(xl[i] == le[i], "to_le_bytes is the integer's LE bytes");
                assert!(xb[i] == be[i], "to_be_bytes is the integer's BE bytes");
                assert!(xn[i] == le[i], "to_ne_bytes is LE on this target");
                assert!(xb[i] == le[$N - 1 - i], "BE is reversed LE");
                i += 1;
            }
            // SCALE
            let enc = x.encode();
            assert!(enc.len() == $N, "encoded length = width/8");
            assert!(x.encoded_size() == $N, "encoded_size = width/8");
            let ienc = bits.encode();
            assert!(ienc.len() == $N);
            let mut i = 0;
            while i < $N {
                assert!(enc[i] == le[i], "SCALE bytes = LE bytes of bits");
                assert!(enc[i] == ienc[i], "SCALE bytes = SCALE bytes of the integer");
                i += 1;
            }
            assert!(<$F as MaxEncodedLen>::max_encoded_len() == $N, "max_encoded_len = width/8");
            // decode what was encoded
            let mut inp: &[u8] = &enc[..];
            match <$F as Decode>::decode(&mut inp) {
                Ok(y) => assert!(y.to_bits() == bits, "decode(encode(x)) == x"),
                Err(_) => assert!(false, "decode(encode(x)) is Ok"),
            }
            assert!(inp.len() == 0, "decode consumes exactly width/8 bytes");
            // Wrapping<F>
            let w = Wrapping::<$F>::from_bits(bits);
            assert!(w.to_bits() == bits, "Wrapping to_bits(from_bits(b)) == b");
            assert!(w.0.to_bits() == bits);
            core::mem::forget(enc);
            core::mem::forget(ienc);
        }
    };
}

/// bytes -> value direction (every byte string of the exact length, and short input)
macro_rules! c10_dec {
    ($name:ident, $F:ty, $I:ty, $N:expr) => {
        #[kani::proof]
        #[kani::unwind(18)]
        pub fn $name() {
            let b: [u8; $N] = kani::any();
            kani::cover!(b[$N - 1] >= 0x80, "W:top bit set");
            let want_le = <$I>::from_le_bytes(b);
            let want_be = <$I>::from_be_bytes(b);
            assert!(<$F>::from_le_bytes(b).to_bits() == want_le, "from_le_bytes");
            assert!(<$F>::from_be_bytes(b).to_bits() == want_be, "from_be_bytes");
            assert!(<$F>::from_ne_bytes(b).to_bits() == want_le, "from_ne_bytes (LE target)");
            // inverse in this direction too
            let r = <$F>::from_le_bytes(b).to_le_bytes();
            let r2 = <$F>::from_be_bytes(b).to_be_bytes();
            let mut i = 0;
            while i < $N {
                assert!(r[i] == b[i], "to_le(from_le(b)) == b");
                assert!(r2[i] == b[i], "to_be(from_be(b)) == b");
                i += 1;
            }
            // SCALE decode of arbitrary bytes, with trailing data left untouched
            let extra: u8 = kani::any();
            let mut buf = [0u8; $N + 1];
            let mut i = 0;
            while i < $N {
                buf[i] = b[i];
                i += 1;
            }
            buf[$N] = extra;
            let mut inp: &[u8] = &buf[..];
            match <$F as Decode>::decode(&mut inp) {
                Ok(y) => assert!(y.to_bits() == want_le, "decode(bytes) = LE integer"),
                Err(_) => assert!(false, "decode of width/8 bytes is Ok"),
            }
            assert!(inp.len() == 1 && inp[0] == extra, "decode leaves trailing input");
            // every shorter input fails
            let n: usize = kani::any();
            kani::assume(n < $N);
            kani::cover!(n == $N - 1, "W:one byte short");
            let mut short: &[u8] = &b[..n];
            assert!(<$F as Decode>::decode(&mut short).is_err(), "decode of fewer bytes fails");
        }
    };
}

include!("gen_c10.rs");
