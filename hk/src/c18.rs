//! C18 – Wrapping<F> computes exactly the corresponding wrapping operation of F and never panics
//! on overflow.
use crate::ar::*;
use crate::util::*;
use core::ops::*;

/// linear and bitwise operators, shifts, rounding methods: against F's wrapping_* methods
pub fn lin<L>()
where
    L: Fixed,
    for<'a> &'a L: Shl<u32, Output = L> + Shr<u32, Output = L>,
    L::Bits: Raw,
{
    let a = <L::Bits as Raw>::any();
    let b = <L::Bits as Raw>::any();
    let x = L::from_bits(a);
    let y = L::from_bits(b);
    let (wx, wy) = (Wrapping(x), Wrapping(y));
    kani::cover!(x.checked_add(y).is_none(), "W:addition overflows");
    assert!((wx + wy).0 == x.wrapping_add(y), "Wrapping + = wrapping_add");
    assert!((wx - wy).0 == x.wrapping_sub(y), "Wrapping - = wrapping_sub");
    assert!((-wx).0 == x.wrapping_neg(), "Wrapping neg = wrapping_neg");
    assert!((&wx + &wy).0 == x.wrapping_add(y) && (&wx - wy).0 == x.wrapping_sub(y) && (wx + &wy).0 == x.wrapping_add(y), "by-reference forms");
    assert!((-&wx).0 == x.wrapping_neg(), "by-reference neg");
    let mut t = wx;
    t += wy;
    assert!(t.0 == x.wrapping_add(y), "+= wraps");
    t = wx;
    t -= &wy;
    assert!(t.0 == x.wrapping_sub(y), "-= wraps");
    // bit operations
    assert!((wx & wy).0 == (x & y) && (wx | wy).0 == (x | y) && (wx ^ wy).0 == (x ^ y) && (!wx).0 == !x, "bit operations pass through");
    t = wx;
    t &= wy;
    t |= wx;
    assert!(t.0 == ((x & y) | x), "assigning bit operations");
    // shifts: amount reduced modulo the width, for every u32 / i8 / u64 / i128 amount
    let s: u32 = kani::any();
    let w = <L::Bits as Raw>::W;
    assert!((wx << s).0 == x.wrapping_shl(s) && (wx >> s).0 == x.wrapping_shr(s), "shift by u32 reduces the amount modulo the width");
    assert!((wx << s).0 == (x << (s % w)) && (wx >> s).0 == (x >> (s % w)), "shift result is the primitive shift by amount mod width");
    let s8: i8 = kani::any();
    let s64: u64 = kani::any();
    let s128: i128 = kani::any();
    assert!((wx << s8).0 == (x << ((s8 as u32) % w)) && (wx >> s64).0 == (x >> ((s64 as u32) % w)) && (wx << s128).0 == (x << ((s128 as u32) % w)),
        "shift by other integer types reduces the amount modulo the width");
    // by-reference forms of the shift operators (left operand by reference, either operand by reference)
    assert!((&wx << s).0 == (x << (s % w)) && (&wx >> s).0 == (x >> (s % w)) && (&wx << &s).0 == (x << (s % w)) && (wx >> &s).0 == (x >> (s % w)),
        "by-reference shifts reduce the amount modulo the width of F");
    assert!((&wx >> s64).0 == (x >> ((s64 as u32) % w)) && (&wx << &s8).0 == (x << ((s8 as u32) % w)), "by-reference shifts by other integer types");
    t = wx;
    t <<= s;
    t >>= &s8;
    assert!(t.0 == ((x << (s % w)) >> ((s8 as u32) % w)), "assigning shifts");
    // rounding methods
    assert!(wx.ceil().0 == x.wrapping_ceil() && wx.floor().0 == x.wrapping_floor() && wx.round().0 == x.wrapping_round()
        && wx.round_ties_to_even().0 == x.wrapping_round_ties_to_even(), "rounding methods wrap");
    assert!(wx.int().0 == x.int() && wx.frac().0 == x.frac() && wx.round_to_zero().0 == x.round_to_zero(), "int / frac / round_to_zero");
    assert!(Wrapping::<L>::from_bits(a).to_bits() == a, "from_bits / to_bits");
    // sum
    let c = <L::Bits as Raw>::any();
    let z = L::from_bits(c);
    let arr = [wx, wy, Wrapping(z)];
    let sum: Wrapping<L> = arr.iter().sum();
    let sum2: Wrapping<L> = arr.iter().cloned().sum();
    assert!(sum.0 == x.wrapping_add(y).wrapping_add(z) && sum2.0 == sum.0, "sum wraps");
}

/// abs / signum (signed types)
pub fn sabs<L>()
where
    L: FixedSigned,
    L::Bits: Raw,
{
    let a = <L::Bits as Raw>::any();
    let x = L::from_bits(a);
    let wx = Wrapping(x);
    kani::cover!(x.checked_abs().is_none(), "W:abs overflows");
    assert!(wx.abs().0 == x.wrapping_abs(), "Wrapping abs = wrapping_abs");
    assert!(wx.is_negative() == x.is_negative() && wx.is_positive() == x.is_positive(), "sign predicates");
}

/// multiplication forms against the exact product modulo 2^W (widths 8..64)
pub fn mul<L, const FORM: u8>()
where
    L: Fixed,
    L::Bits: Raw,
    Wrapping<L>: Mul<L::Bits, Output = Wrapping<L>>,
{
    let a = <L::Bits as Raw>::any();
    let b = <L::Bits as Raw>::any();
    let x = L::from_bits(a);
    let y = L::from_bits(b);
    let (an, aa) = a.neg_abs();
    let (bn, ba) = b.neg_abs();
    let p = <L::Bits as Raw>::mulw(aa, ba);
    kani::cover!(aa != 0 && ba != 0, "W:non-zero operands");
    if FORM == 0 {
        let want = settle::<L::Bits>(mul_exact_small(an != bn, p, L::frac_nbits()));
        let mut t = Wrapping(x);
        MulAssign::<Wrapping<L>>::mul_assign(&mut t, Wrapping(y));
        assert!(Mul::<Wrapping<L>>::mul(Wrapping(x), Wrapping(y)).to_bits() == want.wrapped, "Wrapping * = exact product mod 2^W");
        assert!(t.to_bits() == want.wrapped, "Wrapping *= exact product mod 2^W");
        // by-reference and by-reference-assigning forms (8/16-bit types: six 32-bit multipliers in one query took 275 s)
        let (wx, wy) = (Wrapping(x), Wrapping(y));
        if <L::Bits as Raw>::W > 16 {
            return;
        }
        assert!(Mul::<&Wrapping<L>>::mul(&wx, &wy).to_bits() == want.wrapped && Mul::<&Wrapping<L>>::mul(wx, &wy).to_bits() == want.wrapped
            && Mul::<Wrapping<L>>::mul(&wx, wy).to_bits() == want.wrapped, "Wrapping * by reference = exact product mod 2^W");
        let mut u = wx;
        MulAssign::<&Wrapping<L>>::mul_assign(&mut u, &wy);
        assert!(u.to_bits() == want.wrapped, "Wrapping *= &rhs = exact product mod 2^W");
    } else if FORM == 1 {
        // multiplication by an integer
        let want = settle::<L::Bits>(I256::from_sign_mag(an != bn, 0, p));
        assert!((Wrapping(x) * b).to_bits() == want.wrapped, "Wrapping * int = exact product mod 2^W");
    } else {
        // product of a three-element iterator, and of an empty one
        let c = <L::Bits as Raw>::any();
        let z = L::from_bits(c);
        let arr = [Wrapping(x), Wrapping(y), Wrapping(z)];
        let prod: Wrapping<L> = arr.iter().product();
        assert!(prod.0 == x.wrapping_mul(y).wrapping_mul(z), "product wraps like repeated wrapping_mul");
        let empty: [Wrapping<L>; 0] = [];
        let one: Wrapping<L> = empty.iter().product();
        assert!(one.0 == L::wrapping_from_num(1), "empty product is 1 (wrapped)");
    }
}

/// division / remainder, 8-bit types: against F's wrapping methods
pub fn div8<L>()
where
    L: Fixed,
    L::Bits: Raw,
    Wrapping<L>: Div<L::Bits, Output = Wrapping<L>> + Rem<L::Bits, Output = Wrapping<L>>,
{
    let a = <L::Bits as Raw>::any();
    let b = <L::Bits as Raw>::any();
    kani::assume(b != <L::Bits as Raw>::trunc(0));
    let x = L::from_bits(a);
    let y = L::from_bits(b);
    let (wx, wy) = (Wrapping(x), Wrapping(y));
    kani::cover!(x.checked_div(y).is_none() || L::frac_nbits() == 0, "W:quotient overflows (or integer type)");
    assert!(Div::<Wrapping<L>>::div(wx, wy).0 == x.wrapping_div(y), "Wrapping / = wrapping_div");
    assert!(Rem::<Wrapping<L>>::rem(wx, wy).0 == x % y, "Wrapping % = %");
    let mut t = wx;
    DivAssign::<Wrapping<L>>::div_assign(&mut t, wy);
    assert!(t.0 == x.wrapping_div(y), "/= wraps");
    assert!((wx / b).0 == x.wrapping_div_int(b), "Wrapping / int = wrapping_div_int");
    assert!((wx % b).0 == x % b, "Wrapping % int = % int");
    assert!(wx.div_euclid(wy).0 == x.wrapping_div_euclid(y), "div_euclid wraps");
    assert!(wx.rem_euclid(wy).0 == x.rem_euclid(y), "rem_euclid");
    assert!(wx.div_euclid_int(b).0 == x.wrapping_div_euclid_int(b), "div_euclid_int wraps");
    assert!(wx.rem_euclid_int(b).0 == x.wrapping_rem_euclid_int(b), "rem_euclid_int wraps");
}

/// division, widths 16/32: one division per query, quotient by multiply-back
pub fn divw<L>()
where
    L: Fixed,
    L::Bits: Raw,
{
    let a = <L::Bits as Raw>::any();
    let b = <L::Bits as Raw>::any();
    let x = L::from_bits(a);
    let y = L::from_bits(b);
    let sp = div_spec(a, b, L::frac_nbits());
    kani::assume(sp.ba != 0);
    kani::cover!(sp.ovf || (L::frac_nbits() == 0 && !<L::Bits as Raw>::SIGNED), "W:quotient overflows (or unsigned integer type)");
    let q = Wrapping(x) / Wrapping(y);
    assert!(sp.ovf || is_quotient(&sp, q.to_bits()), "Wrapping / is trunc(a*2^f/b) when representable and never panics on overflow");
}

/// division by a constant power-of-two divisor (-1)^NEG 2^K through Wrapping, every dividend, any width (incl. 64/128 bits):
/// all operator forms equal the exact quotient mod 2^W and none panics on overflow
pub fn divc<L, const K: u32, const NEG: bool>()
where
    L: Fixed,
    L::Bits: Raw,
{
    let a = <L::Bits as Raw>::any();
    let bmag = 1u128 << K;
    let b = <L::Bits as Raw>::trunc(if NEG { bmag.wrapping_neg() } else { bmag });
    let x = L::from_bits(a);
    let y = L::from_bits(b);
    let (an, aa) = a.neg_abs();
    let n = U256::shl_u128(aa, L::frac_nbits());
    let mag = if K == 0 { n } else { U256 { hi: n.hi >> K, lo: (n.lo >> K) | (n.hi << (128 - K)) } };
    let want = settle_sm::<L::Bits>(an != NEG, mag);
    kani::cover!(want.overflow || mag.lo != 0, "W:quotient overflows or is a non-zero value that fits");
    let (wx, wy) = (Wrapping(x), Wrapping(y));
    assert!(Div::<Wrapping<L>>::div(wx, wy).to_bits() == want.wrapped, "Wrapping / = exact quotient mod 2^W");
    assert!(Div::<&Wrapping<L>>::div(&wx, &wy).to_bits() == want.wrapped && Div::<&Wrapping<L>>::div(wx, &wy).to_bits() == want.wrapped,
        "Wrapping / by reference = exact quotient mod 2^W");
    let mut t = wx;
    DivAssign::<Wrapping<L>>::div_assign(&mut t, wy);
    let mut u = wx;
    DivAssign::<&Wrapping<L>>::div_assign(&mut u, &wy);
    assert!(t.to_bits() == want.wrapped && u.to_bits() == want.wrapped, "Wrapping /= (by value and by reference) = exact quotient mod 2^W");
    // remainder by a power of two: sign of the dividend, magnitude |a| mod 2^K
    let rmag = if K == 0 { 0 } else { aa & (bmag - 1) };
    let r = <L::Bits as Raw>::trunc(if an { rmag.wrapping_neg() } else { rmag });
    assert!(Rem::<Wrapping<L>>::rem(wx, wy).to_bits() == r, "Wrapping % = a - b*trunc(a/b)");
    let mut v = wx;
    RemAssign::<&Wrapping<L>>::rem_assign(&mut v, &wy);
    assert!(v.to_bits() == r, "Wrapping %= &rhs");
}

/// a zero divisor panics (the only documented panic)
pub fn divzero<L, const FORM: u8>()
where
    L: Fixed,
    L::Bits: Raw,
    Wrapping<L>: Div<L::Bits, Output = Wrapping<L>> + Rem<L::Bits, Output = Wrapping<L>>,
{
    let a = <L::Bits as Raw>::any();
    let x = Wrapping(L::from_bits(a));
    let z = Wrapping(L::from_bits(<L::Bits as Raw>::trunc(0)));
    if FORM == 0 {
        let _ = Div::<Wrapping<L>>::div(x, z);
    } else if FORM == 1 {
        let _ = Rem::<Wrapping<L>>::rem(x, z);
    } else if FORM == 2 {
        let _ = x / <L::Bits as Raw>::trunc(0);
    } else {
        let _ = x % <L::Bits as Raw>::trunc(0);
    }
    assert!(false, "MUSTPANIC: division by zero returned a value");
}

/// conversions: from_num of integers / fixed / finite floats
pub fn conv<L>()
where
    L: Fixed,
    L::Bits: Raw,
{
    let i: i64 = kani::any();
    let u: u128 = kani::any();
    kani::cover!(L::checked_from_num(u).is_none(), "W:integer does not fit");
    assert!(Wrapping::<L>::from_num(i).0 == L::wrapping_from_num(i), "from_num(i64) wraps");
    assert!(Wrapping::<L>::from_num(u).0 == L::wrapping_from_num(u), "from_num(u128) wraps");
    let fx = substrate_fixed::types::I20F12::from_bits(kani::any());
    assert!(Wrapping::<L>::from_num(fx).0 == L::wrapping_from_num(fx), "from_num(fixed) wraps");
    let a = <L::Bits as Raw>::any();
    let x = Wrapping(L::from_bits(a));
    assert!(x.to_num::<i16>() == x.0.wrapping_to_num::<i16>(), "to_num wraps");
}

pub fn conv_float<L>()
where
    L: Fixed,
    L::Bits: Raw,
{
    let f = f32::from_bits(kani::any());
    kani::assume(f.is_finite());
    kani::cover!(L::checked_from_num(f).is_none(), "W:float does not fit");
    assert!(Wrapping::<L>::from_num(f).0 == L::wrapping_from_num(f), "from_num(f32) wraps");
}

/// a short program: ((a op1 b) op2 c) op3 d with operators chosen among + - *
pub fn seq<L>()
where
    L: Fixed,
    L::Bits: Raw,
{
    let vals: [L; 4] = [L::from_bits(<L::Bits as Raw>::any()), L::from_bits(<L::Bits as Raw>::any()),
        L::from_bits(<L::Bits as Raw>::any()), L::from_bits(<L::Bits as Raw>::any())];
    let mut acc = Wrapping(vals[0]);
    let mut want = vals[0];
    let mut i = 1;
    while i < 4 {
        let op: u8 = kani::any();
        kani::assume(op < 3);
        if op == 0 {
            acc = acc + Wrapping(vals[i]);
            want = want.wrapping_add(vals[i]);
        } else if op == 1 {
            acc -= Wrapping(vals[i]);
            want = want.wrapping_sub(vals[i]);
        } else {
            acc = acc * &Wrapping(vals[i]);
            want = want.wrapping_mul(vals[i]);
        }
        i += 1;
    }
    kani::cover!(true, "W:reached");
    assert!(acc.0 == want, "a sequence of Wrapping operations equals the same sequence of wrapping_* calls");
}

include!("gen_c18.rs");
