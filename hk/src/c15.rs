//! c15 harness instantiations (bodies in tr.rs)
use crate::tr::*;

include!("gen_c15.rs");
