//! c13 harness instantiations (bodies in tr.rs)
use crate::tr::*;

include!("gen_c13.rs");
