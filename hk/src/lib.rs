//! Kani proof harnesses over the real substrate-fixed crate (path dependency on /repo).
//! One module per property; the list of instantiations (`gen_cXX.rs`) is written by the
//! driver (/verif/vk) for every run, from the tier, the seed and the open known findings.
#![allow(dead_code, unused_imports, unused_macros, unused_variables, unused_mut, clippy::all)]

#[cfg(kani)]
pub mod util;

#[cfg(all(kani, any(feature = "c01", feature = "c02", feature = "c04", feature = "c05", feature = "c07", feature = "c08", feature = "c09", feature = "c11", feature = "c18")))]
pub mod ar;

#[cfg(all(kani, any(feature = "c12", feature = "c13", feature = "c14", feature = "c15", feature = "c16", feature = "c17")))]
#[macro_use]
pub mod tr;

macro_rules! prop_mod {
    ($feat:literal, $m:ident) => {
        #[cfg(all(kani, feature = $feat))]
        pub mod $m;
    };
}
prop_mod!("c01", c01);
prop_mod!("c02", c02);
prop_mod!("c03", c03);
prop_mod!("c04", c04);
prop_mod!("c05", c05);
prop_mod!("c06", c06);
prop_mod!("c07", c07);
prop_mod!("c08", c08);
prop_mod!("c09", c09);
prop_mod!("c10", c10);
prop_mod!("c11", c11);
prop_mod!("c12", c12);
prop_mod!("c13", c13);
prop_mod!("c14", c14);
prop_mod!("c15", c15);
prop_mod!("c16", c16);
prop_mod!("c17", c17);
prop_mod!("c18", c18);
