"""Engine M obligations for IntHelper::to_fixed_helper (int_helper.rs), the kernel behind every fixed<->fixed and
fixed<->integer conversion and comparison: for a CONCRETE layout triple (src_frac, dst_frac, dst_int) and ALL source
values v of the integer type:

  bits     = floor(v * 2^(dst_frac - src_frac)) mod 2^128, tagged Unsigned for v >= 0 and Negative for v < 0
  dir      = Less iff bits were lost (Equal otherwise)
  overflow = the floor does not fit dst_frac + dst_int bits (as an unsigned number for v > 0, in two's complement for v < 0)

The function depends on the layout only through need_to_shr = src_frac - dst_frac and dst_bits = dst_frac + dst_int."""
from . import mir
from .mulcheck import find_fn


def build(funcs, ty, src_frac, dst_frac, dst_int):
    ctx = mir.Ctx()
    v = ctx.input("a", ty)
    ctx.input("b", "u8")   # unused second input so that models print uniformly
    ex = mir.Exec(funcs, ctx)
    fn = find_fn(funcs, "::to_fixed_helper", ty)
    leaves = list(ex.run(fn, [v, mir.V(c=src_frac), mir.V(c=dst_frac), mir.V(c=dst_int)], []))
    n = src_frac - dst_frac
    dst_bits = dst_frac + dst_int
    if n <= 0:
        e = ctx.mulc(v, 1 << (-n))
        lost = mir.B(c=False)
    else:
        e = ctx.divc(v, 1 << n)
        lost = ctx.cmp("Ne", ctx.modc(v, 1 << n), mir.V(c=0))
    want_u = ctx.wrap(e, "u128")
    want_i = ctx.wrap(e, "i128")
    is_neg = ctx.cmp("Lt", v, mir.V(c=0))
    is_zero = ctx.cmp("Eq", v, mir.V(c=0))
    ovf_pos = ctx.cmp("Ge", e, mir.V(c=1 << dst_bits))
    ovf_neg = ctx.cmp("Lt", e, mir.V(c=-(1 << (dst_bits - 1)) if dst_bits > 0 else 0))
    if dst_bits == 0:
        # no bits at all: every non-zero value overflows (negative floors are <= -1 < 0)
        ovf_neg = mir.B(c=True) if True else ovf_neg
    queries = []
    pend = list(ex.pending)
    for (pcs, rv) in leaves:
        pcs = pcs + pend
        if not isinstance(rv, dict) or "bits" not in rv:
            raise mir.Unsupported("unexpected return value of to_fixed_helper")
        tag, payload = rv["bits"][1], rv["bits"][2][0]
        dirv = rv["dir"][1]
        ovf = rv["overflow"]
        i = len(queries)
        if tag.endswith("Unsigned"):
            queries.append(("bits (Unsigned) on path %d" % i, pcs, mir.band(mir.bnot(is_neg), ctx.cmp("Eq", payload, want_u))))
        elif tag.endswith("Negative"):
            queries.append(("bits (Negative) on path %d" % i, pcs, mir.band(is_neg, ctx.cmp("Eq", payload, want_i))))
        else:
            raise mir.Unsupported("unknown Widest variant " + tag)
        if dirv.endswith("Less"):
            queries.append(("dir Less on path %d" % i, pcs, lost))
        elif dirv.endswith("Equal"):
            queries.append(("dir Equal on path %d" % i, pcs, mir.bnot(lost)))
        else:
            raise mir.Unsupported("unexpected dir " + dirv)
        # overflow flag: zero never overflows; positive / negative windows
        want_ovf_smt = "(ite %s false (ite %s %s %s))" % (is_zero.smt, is_neg.smt, ovf_neg.smt, ovf_pos.smt)
        want_ovf_bv = None
        if all(x.bv is not None for x in (is_zero, is_neg, ovf_neg, ovf_pos)):
            want_ovf_bv = "(ite %s false (ite %s %s %s))" % (is_zero.bv, is_neg.bv, ovf_neg.bv, ovf_pos.bv)
        queries.append(("overflow flag on path %d" % i, pcs, mir.beq(ovf, mir.B(smt=want_ovf_smt, bv=want_ovf_bv))))
    for (pcs, cond, msg, fname) in ctx.obligations:
        queries.append(("no panic: %s in %s" % (msg[:60], fname.split("::")[-1]), pcs + pend, cond))
    return ctx, queries, sorted(ex.called)


def spec_py(v, ty, src_frac, dst_frac, dst_int):
    n = src_frac - dst_frac
    dst_bits = dst_frac + dst_int
    if n <= 0:
        e, lost = v << (-n), False
    else:
        e, lost = v >> n, (v & ((1 << n) - 1)) != 0
    if v == 0:
        ovf = False
    elif v > 0:
        ovf = e >= (1 << dst_bits)
    else:
        ovf = e < (-(1 << (dst_bits - 1)) if dst_bits > 0 else 0)
    bits = e & ((1 << 128) - 1)
    if v < 0 and bits >> 127:
        bits -= 1 << 128
    return ("Negative" if v < 0 else "Unsigned", bits, "Less" if lost else "Equal", ovf)


def concrete(funcs, ty, v, src_frac, dst_frac, dst_int):
    ctx = mir.Ctx(exact_products=True)
    ex = mir.Exec(funcs, ctx)
    fn = find_fn(funcs, "::to_fixed_helper", ty)
    leaves = list(ex.run(fn, [mir.V(c=v), mir.V(c=src_frac), mir.V(c=dst_frac), mir.V(c=dst_int)], []))
    panics = [o for o in ctx.obligations if o[1].is_c() and not o[1].c]
    if len(leaves) != 1:
        return None, panics
    rv = leaves[0][1]
    return (rv["bits"][1].split("::")[-1], rv["bits"][2][0].c, rv["dir"][1].split("::")[-1], rv["overflow"].c), panics
