"""Engine M obligations for the widening multiplication / division kernels (arith.rs mul_div_widen,
u8..u64 and i8..i64): all operands, one concrete fractional-bit count per obligation, bit-vector rendering."""
from . import mir
from .mulcheck import find_fn


def build_mul(funcs, ty, f):
    """mul_overflow(a, b, f) == (floor(a*b / 2^f) mod 2^W, not representable); a*b is the abstract product the
    implementation's double-width multiplication shares with the specification"""
    ctx = mir.Ctx()
    a = ctx.input("a", ty)
    b = ctx.input("b", ty)
    ex = mir.Exec(funcs, ctx)
    fn = find_fn(funcs, "::mul_overflow", ty)
    leaves = list(ex.run(fn, [a, b, mir.V(c=f)], []))
    prod = ctx.mul(a, b)
    exact_q = ctx.divc(prod, 1 << f)
    want_val = ctx.wrap(exact_q, ty)
    want_ovf = ctx.out_of_range(exact_q, ty)
    queries = []
    for (pcs, rv) in leaves:
        val, ovf = rv
        queries.append(("product value on path %d" % len(queries), pcs, ctx.cmp("Eq", val, want_val)))
        queries.append(("product flag on path %d" % len(queries), pcs, mir.beq(ovf, want_ovf)))
    for (pcs, cond, msg, fname) in ctx.obligations:
        queries.append(("no panic: %s in %s" % (msg[:60], fname.split("::")[-1]), pcs, cond))
    if len(ctx.products) != 1:
        raise mir.Unsupported("expected exactly one symbolic product (a*b) in the widening kernel, found %d" % len(ctx.products))
    return ctx, queries, sorted(ex.called)


def build_div(funcs, ty, f):
    """div_overflow(a, b, f), b != 0: the primitive division is called exactly once, with (a * 2^f, b); the result is
    (q mod 2^W, q not representable) for WHATEVER quotient q the primitive returns; no other check can fire"""
    ctx = mir.Ctx()
    a = ctx.input("a", ty)
    b = ctx.input("b", ty)
    ex = mir.Exec(funcs, ctx)
    fn = find_fn(funcs, "::div_overflow", ty)
    nonzero = ctx.cmp("Ne", b, mir.V(c=0))
    leaves = list(ex.run(fn, [a, b, mir.V(c=f)], [nonzero]))
    if len(ctx.divisions) != 1:
        raise mir.Unsupported("expected exactly one primitive division in the widening kernel, found %d" % len(ctx.divisions))
    x, y, q = ctx.divisions[0]
    queries = [("dividend is a * 2^f", [nonzero], ctx.cmp("Eq", x, ctx.mulc(a, 1 << f))),
               ("divisor is b", [nonzero], ctx.cmp("Eq", y, b))]
    want_val = ctx.wrap(q, ty)
    want_ovf = ctx.out_of_range(q, ty)
    for (pcs, rv) in leaves:
        val, ovf = rv
        queries.append(("quotient value on path %d" % len(queries), pcs, ctx.cmp("Eq", val, want_val)))
        queries.append(("quotient flag on path %d" % len(queries), pcs, mir.beq(ovf, want_ovf)))
    for (pcs, cond, msg, fname) in ctx.obligations:
        queries.append(("no panic: %s in %s" % (msg[:60], fname.split("::")[-1]), pcs, cond))
    return ctx, queries, sorted(ex.called)


def build_div128(funcs, ty, f):
    """128-bit div_overflow(a, b, f), b != 0, with the Knuth-D routine WideDivRem::div_rem_from abstracted by an ARBITRARY
    256-bit quotient: it is called exactly once with the dividend a * 2^f (as hi * 2^128 + lo) and the divisor b, and the
    result is (Q mod 2^128, Q not representable) for whatever quotient Q = qh * 2^128 + ql it returns.  (f = 0: the
    primitive overflowing_div.)  wide_div.rs itself is NOT covered by this obligation."""
    ctx = mir.Ctx()
    a = ctx.input("a", ty)
    b = ctx.input("b", ty)
    ex = mir.Exec(funcs, ctx)
    ex.abstract_wide_div = True
    fn = find_fn(funcs, "::div_overflow", ty)
    nonzero = ctx.cmp("Ne", b, mir.V(c=0))
    leaves = list(ex.run(fn, [a, b, mir.V(c=f)], [nonzero]))
    queries = []
    if f == 0:
        if len(ctx.divisions) != 1 or ctx.wide_divisions:
            raise mir.Unsupported("expected exactly one primitive division for f = 0")
        x, y, q = ctx.divisions[0]
        queries += [("dividend is a", [nonzero], ctx.cmp("Eq", x, a)), ("divisor is b", [nonzero], ctx.cmp("Eq", y, b))]
        big_q = q
    else:
        if len(ctx.wide_divisions) != 1 or ctx.divisions:
            raise mir.Unsupported("expected exactly one wide division, found %d" % len(ctx.wide_divisions))
        d, hi, lo, qh, ql = ctx.wide_divisions[0]
        queries += [("dividend is a * 2^f as hi * 2^128 + lo", [nonzero], mir.band(ctx.cmp("Eq", ctx.add(ctx.mulc(hi, 1 << 128), lo), ctx.mulc(a, 1 << f)),
                                                                                   ctx.cmp("Ge", lo, mir.V(c=0)), ctx.cmp("Lt", lo, mir.V(c=1 << 128)))),
                    ("divisor is b", [nonzero], ctx.cmp("Eq", d, b))]
        big_q = ctx.add(ctx.mulc(qh, 1 << 128), ql)
    want_val = ctx.wrap(big_q, ty)
    want_ovf = ctx.out_of_range(big_q, ty)
    for (pcs, rv) in leaves:
        val, ovf = rv
        queries.append(("quotient value on path %d" % len(queries), pcs, ctx.cmp("Eq", val, want_val)))
        queries.append(("quotient flag on path %d" % len(queries), pcs, mir.beq(ovf, want_ovf)))
    for (pcs, cond, msg, fname) in ctx.obligations:
        queries.append(("no panic: %s in %s" % (msg[:60], fname.split("::")[-1]), pcs, cond))
    return ctx, queries, sorted(ex.called)


def spec_mul(a, b, f, ty):
    s, w = mir.INT_TYPES[ty]
    q = (a * b) >> f
    lo, hi = mir.ty_range(ty)
    v = q & ((1 << w) - 1)
    if s and v >> (w - 1):
        v -= 1 << w
    return v, not (lo <= q <= hi)


def spec_div(a, b, f, ty):
    s, w = mir.INT_TYPES[ty]
    n = a << f
    q = abs(n) // abs(b)
    if (n < 0) != (b < 0):
        q = -q
    lo, hi = mir.ty_range(ty)
    v = q & ((1 << w) - 1)
    if s and v >> (w - 1):
        v -= 1 << w
    return v, not (lo <= q <= hi)


def concrete(funcs, kind, ty, a, b, f):
    ctx = mir.Ctx(exact_products=True)
    ex = mir.Exec(funcs, ctx)
    fn = find_fn(funcs, "::%s_overflow" % kind, ty)
    leaves = list(ex.run(fn, [mir.V(c=a), mir.V(c=b), mir.V(c=f)], []))
    panics = [o for o in ctx.obligations if o[1].is_c() and not o[1].c]
    if len(leaves) != 1:
        return None, panics
    val, ovf = leaves[0][1]
    return (val.c, ovf.c), panics


def validate_translator(funcs, ty, seed, n=120):
    import random
    rnd = random.Random(seed)
    lo, hi = mir.ty_range(ty)
    s, w = mir.INT_TYPES[ty]
    sp = [0, 1, 2, hi, hi - 1, lo, lo + 1, 12 << (w // 4), 5 << (w // 4)] + ([-1, -2, -(12 << (w // 4))] if s else [])
    sp = [x for x in sp if lo <= x <= hi]
    vecs = [(x, y) for x in sp for y in sp] + [(rnd.randrange(lo, hi + 1), rnd.randrange(lo, hi + 1)) for _ in range(n)]
    bad = []
    for (x, y) in vecs:
        f = rnd.choice([0, 1, w // 2, w - 1, w])
        got, panics = concrete(funcs, "mul", ty, x, y, f)
        if got != spec_mul(x, y, f, ty) or panics:
            bad.append(("mul", x, y, f, got, spec_mul(x, y, f, ty), [p[2] for p in panics]))
        if y != 0:
            got, panics = concrete(funcs, "div", ty, x, y, f)
            if got != spec_div(x, y, f, ty) or panics:
                bad.append(("div", x, y, f, got, spec_div(x, y, f, ty), [p[2] for p in panics]))
    return 2 * len(vecs), bad
