"""Engine M: a small symbolic executor for the loop-free integer kernels of the crate, working on
rustc's MIR dump (`-Zunpretty=mir`, debug assertions and overflow checks on) and emitting SMT-LIB
over mathematical integers with explicit wrap-around.

Supported subset (anything else raises Unsupported -> the obligation is inconclusive, never a pass):
integer/bool/tuple locals, copy/move/const operands, field reads, BinOp / CheckedBinOp / UnOp, IntToInt
casts, tuple aggregates, switchInt / goto / assert / return, calls to other dumped functions (inlined
by name and self type) and to a modelled set of core integer intrinsics.

A product of two symbolic terms is replaced by a fresh integer shared by structurally identical
operand pairs and constrained only by its McCormick envelope (sound over-approximation): `unsat`
therefore implies the property for the real product.  A `sat` answer is only a candidate; the
caller re-queries with the exact non-linear product and replays natively."""
import re


class Unsupported(Exception):
    pass


INT_TYPES = {}
for _w in (8, 16, 32, 64, 128):
    INT_TYPES["u%d" % _w] = (False, _w)
    INT_TYPES["i%d" % _w] = (True, _w)
INT_TYPES["usize"] = (False, 64)
INT_TYPES["isize"] = (True, 64)


def ty_range(ty):
    s, w = INT_TYPES[ty]
    return (-(1 << (w - 1)), (1 << (w - 1)) - 1) if s else (0, (1 << w) - 1)


class V:
    """integer value: concrete (c is an int) or symbolic SMT term with interval bounds and known
    divisibility by 2^tz"""
    __slots__ = ("c", "smt", "lo", "hi", "tz", "bv", "lin")

    def __init__(self, c=None, smt=None, lo=None, hi=None, tz=0, bv=None, lin=None):
        self.c, self.smt, self.lo, self.hi, self.tz, self.bv = c, smt, lo, hi, tz, bv
        self.lin = lin     # (k, base): this value is k * base for a constant k (used to share abstract products)
        if c is not None:
            self.lo = self.hi = c
            self.smt = str(c) if c >= 0 else "(- %d)" % (-c)
            self.bv = bvlit(c)

    def is_c(self):
        return self.c is not None


WBV = 400  # width of the bit-vector rendering (two's complement; every intermediate value fits)


def bvlit(n):
    return "(_ bv%d %d)" % (n % (1 << WBV), WBV)


class B:
    """boolean value: concrete or SMT (integer rendering smt, bit-vector rendering bv)"""
    __slots__ = ("c", "smt", "bv")

    def __init__(self, c=None, smt=None, bv=None):
        self.c, self.smt, self.bv = c, smt, bv
        if c is not None:
            self.smt = self.bv = "true" if c else "false"

    def is_c(self):
        return self.c is not None


def beq(a, b):
    if a.is_c() and b.is_c():
        return B(c=(a.c == b.c))
    return B(smt="(= %s %s)" % (a.smt, b.smt), bv=("(= %s %s)" % (a.bv, b.bv)) if a.bv and b.bv else None)


def band(*bs):
    if all(b.is_c() for b in bs):
        return B(c=all(b.c for b in bs))
    return B(smt="(and %s)" % " ".join(b.smt for b in bs), bv=("(and %s)" % " ".join(b.bv for b in bs)) if all(b.bv for b in bs) else None)


def bnot(b):
    return B(c=not b.c) if b.is_c() else B(smt="(not %s)" % b.smt, bv=("(not %s)" % b.bv) if b.bv else None)


class Ctx:
    def __init__(self, exact_products=False):
        self.decls = []          # SMT declarations / global constraints
        self.bvdecls = []        # the same for the bit-vector rendering (inputs only)
        self.products = {}       # (smt_a, smt_b) -> V
        self.divisions = []      # (dividend, divisor, exact truncated quotient) of every modelled primitive division
        self.int_invalid = False # set when a term has no integer rendering (symbolic shift amounts)
        self.wide_divisions = [] # (divisor, dividend hi, dividend lo, quotient hi, quotient lo) of every abstracted wide division
        self.obligations = []    # (path conditions, condition that must hold, message, function)
        self.exact_products = exact_products
        self.nfresh = 0

    def fresh(self, prefix, lo, hi):
        self.nfresh += 1
        n = "%s_%d" % (prefix, self.nfresh)
        self.decls.append("(declare-const %s Int)" % n)
        self.decls.append("(assert (and (>= %s %s) (<= %s %s)))" % (n, lit(lo), n, lit(hi)))
        self.bvdecls.append("(declare-const %s (_ BitVec %d))" % (n, WBV))
        self.bvdecls.append("(assert (and (bvsge %s %s) (bvsle %s %s)))" % (n, bvlit(lo), n, bvlit(hi)))
        return V(smt=n, lo=lo, hi=hi, bv=n)

    def input(self, name, ty):
        lo, hi = ty_range(ty)
        self.decls.append("(declare-const %s Int)" % name)
        self.decls.append("(assert (and (>= %s %s) (<= %s %s)))" % (name, lit(lo), name, lit(hi)))
        self.bvdecls.append("(declare-const %s (_ BitVec %d))" % (name, WBV))
        self.bvdecls.append("(assert (and (bvsge %s %s) (bvsle %s %s)))" % (name, bvlit(lo), name, bvlit(hi)))
        return V(smt=name, lo=lo, hi=hi, bv=name)

    # ---- arithmetic on mathematical integers
    def add(self, a, b):
        if a.is_c() and b.is_c():
            return V(c=a.c + b.c)
        if a.is_c() and a.c == 0:
            return b
        if b.is_c() and b.c == 0:
            return a
        return V(smt="(+ %s %s)" % (a.smt, b.smt), lo=a.lo + b.lo, hi=a.hi + b.hi, tz=min(a.tz if not a.is_c() else tzc(a.c), b.tz if not b.is_c() else tzc(b.c)),
                 bv=("(bvadd %s %s)" % (a.bv, b.bv)) if a.bv and b.bv else None)

    def neg(self, a):
        if a.is_c():
            return V(c=-a.c)
        return V(smt="(- %s)" % a.smt, lo=-a.hi, hi=-a.lo, tz=a.tz, bv=("(bvneg %s)" % a.bv) if a.bv else None)

    def sub(self, a, b):
        return self.add(a, self.neg(b))

    def mulc(self, a, k):
        if a.is_c():
            return V(c=a.c * k)
        if k == 0:
            return V(c=0)
        if k == 1:
            return a
        lo, hi = sorted((a.lo * k, a.hi * k))
        k0, base = a.lin if a.lin else (1, a)
        return V(smt="(* %s %s)" % (lit(k), a.smt), lo=lo, hi=hi, tz=a.tz + tzc(k), bv=("(bvmul %s %s)" % (bvlit(k), a.bv)) if a.bv else None,
                 lin=(k0 * k, base))

    def mul(self, a, b):
        if a.is_c():
            return self.mulc(b, a.c)
        if b.is_c():
            return self.mulc(a, b.c)
        if a.lin or b.lin:
            ka, ba = a.lin if a.lin else (1, a)
            kb, bb = b.lin if b.lin else (1, b)
            return self.mulc(self.mul(ba, bb), ka * kb)
        key = tuple(sorted((a.smt, b.smt)))
        if key in self.products:
            return self.products[key]
        corners = [a.lo * b.lo, a.lo * b.hi, a.hi * b.lo, a.hi * b.hi]
        if self.exact_products:
            p = V(smt="(* %s %s)" % (a.smt, b.smt), lo=min(corners), hi=max(corners))
        else:
            p = self.fresh("P", min(corners), max(corners))
            # McCormick envelope
            x, y, al, ah, bl, bh = a.smt, b.smt, a.lo, a.hi, b.lo, b.hi
            self.decls.append("(assert (>= %s (- (+ (* %s %s) (* %s %s)) %s)))" % (p.smt, lit(al), y, lit(bl), x, lit(al * bl)))
            self.decls.append("(assert (>= %s (- (+ (* %s %s) (* %s %s)) %s)))" % (p.smt, lit(ah), y, lit(bh), x, lit(ah * bh)))
            self.decls.append("(assert (<= %s (- (+ (* %s %s) (* %s %s)) %s)))" % (p.smt, lit(ah), y, lit(bl), x, lit(ah * bl)))
            self.decls.append("(assert (<= %s (- (+ (* %s %s) (* %s %s)) %s)))" % (p.smt, lit(al), y, lit(bh), x, lit(al * bh)))
        self.products[key] = p
        return p

    def divc(self, a, k):
        """floor division by a positive constant"""
        assert k > 0
        if a.is_c():
            return V(c=a.c // k)
        if k == 1:
            return a
        bv = None
        if a.bv and k & (k - 1) == 0:
            bv = "(bvashr %s %s)" % (a.bv, bvlit(k.bit_length() - 1))
        return V(smt="(div %s %s)" % (a.smt, lit(k)), lo=a.lo // k, hi=a.hi // k, bv=bv)

    def modc(self, a, k):
        assert k > 0
        if a.is_c():
            return V(c=a.c % k)
        if a.lo >= 0 and a.hi < k:
            return a
        bv = None
        if a.bv and k & (k - 1) == 0:
            bv = "(bvand %s %s)" % (a.bv, bvlit(k - 1))
        return V(smt="(mod %s %s)" % (a.smt, lit(k)), lo=0, hi=k - 1, tz=min(a.tz, tzc(k)), bv=bv)

    def sym_shift(self, a, amt, ty, left):
        """shift by a symbolic amount: only the bit-vector rendering can express it (the amount is masked to the width, as
        MIR's Shl/Shr do; rustc's overflow assert precedes them).  The integer rendering becomes unusable."""
        s, w = INT_TYPES[ty]
        if a.bv is None or amt.bv is None:
            raise Unsupported("symbolic shift amount without a bit-vector rendering")
        self.int_invalid = True
        self.nfresh += 1
        m = "(bvand %s %s)" % (amt.bv, bvlit(w - 1))
        if left:
            bv = "(bvshl %s %s)" % (a.bv, m)
            v = V(smt="SYMSHIFT_%d" % self.nfresh, lo=-(1 << (WBV - 2)), hi=(1 << (WBV - 2)), bv=bv)
            return self.wrap(v, ty)
        lo, hi = ty_range(ty)
        bv = "(bvashr %s %s)" % (a.bv, m)   # values are kept in two's complement within WBV bits: arithmetic shift = floor
        return V(smt="SYMSHIFT_%d" % self.nfresh, lo=min(a.lo, 0) if a.lo is not None else lo, hi=max(a.hi, 0) if a.hi is not None else hi, bv=bv)

    def wrap(self, a, ty):
        lo, hi = ty_range(ty)
        if a.lo >= lo and a.hi <= hi:
            return a
        s, w = INT_TYPES[ty]
        if a.is_c():
            v = a.c & ((1 << w) - 1)
            if s and v >> (w - 1):
                v -= 1 << w
            return V(c=v)
        if not s:
            return self.modc(a, 1 << w)
        m = self.modc(self.add(a, V(c=1 << (w - 1))), 1 << w)
        r = self.sub(m, V(c=1 << (w - 1)))
        r.tz = a.tz if a.tz < w else 0
        return r

    def out_of_range(self, a, ty):
        lo, hi = ty_range(ty)
        if a.lo >= lo and a.hi <= hi:
            return B(c=False)
        if a.is_c():
            return B(c=not (lo <= a.c <= hi))
        return B(smt="(or (< %s %s) (> %s %s))" % (a.smt, lit(lo), a.smt, lit(hi)),
                 bv=("(or (bvslt %s %s) (bvsgt %s %s))" % (a.bv, bvlit(lo), a.bv, bvlit(hi))) if a.bv else None)

    def cmp(self, op, a, b):
        if a.is_c() and b.is_c():
            return B(c={"Eq": a.c == b.c, "Ne": a.c != b.c, "Lt": a.c < b.c, "Le": a.c <= b.c, "Gt": a.c > b.c, "Ge": a.c >= b.c}[op])
        # interval shortcuts
        if op == "Lt" and a.hi < b.lo:
            return B(c=True)
        if op == "Lt" and a.lo >= b.hi:
            return B(c=False)
        s = {"Eq": "(= %s %s)", "Ne": "(not (= %s %s))", "Lt": "(< %s %s)", "Le": "(<= %s %s)", "Gt": "(> %s %s)", "Ge": "(>= %s %s)"}[op]
        sb = {"Eq": "(= %s %s)", "Ne": "(not (= %s %s))", "Lt": "(bvslt %s %s)", "Le": "(bvsle %s %s)", "Gt": "(bvsgt %s %s)", "Ge": "(bvsge %s %s)"}[op]
        return B(smt=s % (a.smt, b.smt), bv=(sb % (a.bv, b.bv)) if a.bv and b.bv else None)


def lit(n):
    return str(n) if n >= 0 else "(- %d)" % (-n)


def tzc(n):
    if n == 0:
        return 10 ** 6
    t = 0
    while n % 2 == 0:
        n //= 2
        t += 1
    return t


# ------------------------------------------------------------------------------------------ parsing

class Func:
    def __init__(self, name, params, ret):
        self.name, self.params, self.ret = name, params, ret
        self.types = {}
        self.blocks = {}


HEADER = re.compile(r"^fn (.*)\((.*?)\)(?: -> (.*))? \{$")


def split_top(s, sep=","):
    out, depth, cur = [], 0, ""
    for ch in s:
        if ch in "([<{":
            depth += 1
        elif ch in ")]>}":
            depth -= 1
        if ch == sep and depth == 0:
            out.append(cur.strip())
            cur = ""
        else:
            cur += ch
    if cur.strip():
        out.append(cur.strip())
    return out


def parse(text, want=lambda name: True):
    funcs = {}
    lines = text.split("\n")
    i = 0
    n = len(lines)
    while i < n:
        line = lines[i]
        if line.startswith("fn ") and line.endswith("{"):
            # name ( params ) -> ret {
            body_start = i
            # parameter list = last top-level parenthesis group before " -> " or " {"
            head = line[3:-2]
            ret = "()"
            if ") -> " in head:
                k = head.rindex(") -> ")
                ret = head[k + 5:]
                head = head[:k + 1]
            # find matching "(" for the final ")"
            depth = 0
            j = len(head) - 1
            while j >= 0:
                if head[j] == ")":
                    depth += 1
                elif head[j] == "(":
                    depth -= 1
                    if depth == 0:
                        break
                j -= 1
            name = head[:j]
            params = []
            for p in split_top(head[j + 1:-1]):
                if not p:
                    continue
                m = re.match(r"(?:mut )?_(\d+): (.*)", p)
                params.append((int(m.group(1)), m.group(2)))
            # find end of function
            j = i + 1
            while j < n and lines[j] != "}":
                j += 1
            if want(name):
                f = Func(name, params, ret)
                for idx, t in params:
                    f.types[idx] = t
                cur = None
                for l in lines[i + 1:j]:
                    s = l.strip()
                    m = re.match(r"let (?:mut )?_(\d+): (.*);$", s)
                    if m:
                        f.types[int(m.group(1))] = m.group(2)
                        continue
                    m = re.match(r"(bb\d+)(?: \(cleanup\))?: \{$", s)
                    if m:
                        cur = m.group(1)
                        f.blocks[cur] = []
                        continue
                    if s == "}" or not s or s.startswith("debug ") or s.startswith("scope ") or s.startswith("//"):
                        if s == "}":
                            pass
                        continue
                    if cur is not None:
                        f.blocks[cur].append(s)
                funcs.setdefault(name, []).append(f)
            i = j
        i += 1
    return funcs


# ------------------------------------------------------------------------------------------ execution

CORE = re.compile(r"core::num::<impl (\w+)>::(\w+)$")
TRAITCALL = re.compile(r"<(\w+) as ([\w:]+)>::(\w+)$")


class Exec:
    def __init__(self, funcs, ctx, max_paths=4000):
        self.funcs, self.ctx = funcs, ctx
        self.npaths = 0
        self.max_paths = max_paths
        self.called = set()
        self.pending = []          # definitional constraints of fresh variables (leading_zeros), added to every query
        self.abstract_wide_div = False   # model WideDivRem::div_rem_from by an arbitrary 256-bit quotient
        self.watch_suffix = None   # record calls to functions whose name ends with this
        self.watched = []          # (path conditions at the call, arguments, returned value)

    def resolve(self, callee, argtypes):
        m = TRAITCALL.match(callee)
        cands = []
        if m:
            selfty, _trait, meth = m.groups()
            for name, fl in self.funcs.items():
                if name.endswith("::" + meth):
                    for f in fl:
                        if f.params and f.params[0][1] == selfty and len(f.params) == len(argtypes):
                            cands.append(f)
        else:
            for f in self.funcs.get(callee, []):
                cands.append(f)
        if len(cands) != 1:
            raise Unsupported("cannot resolve call %s (%d candidates)" % (callee, len(cands)))
        return cands[0]

    def operand(self, f, env, s):
        s = s.strip()
        if s.startswith("copy ") or s.startswith("move "):
            return self.place(f, env, s[5:])
        if s.startswith("const "):
            c = s[6:].strip()
            if c in ("true", "false"):
                return B(c=(c == "true"))
            m = re.match(r"(-?\d+)_(\w+)$", c)
            if m:
                return V(c=int(m.group(1)))
            m = re.match(r"<(\w+) as [^>]+>::(?:\w+::)*NBITS$", c)
            if m and m.group(1) in INT_TYPES:
                return V(c=INT_TYPES[m.group(1)][1])
            m = re.match(r"(\w+)::(MAX|MIN)$", c)
            if m and m.group(1) in INT_TYPES:
                lo, hi = ty_range(m.group(1))
                return V(c=hi if m.group(2) == "MAX" else lo)
            raise Unsupported("constant " + c)
        raise Unsupported("operand " + s)

    def place(self, f, env, s):
        s = s.strip()
        m = re.match(r"_(\d+)$", s)
        if m:
            return env[int(m.group(1))]
        m = re.match(r"\(_(\d+)\.(\d+): .*\)$", s)
        if m:
            return env[int(m.group(1))][int(m.group(2))]
        raise Unsupported("place " + s)

    def place_type(self, f, s):
        s = s.strip()
        m = re.match(r"_(\d+)$", s)
        if m:
            return f.types[int(m.group(1))]
        m = re.match(r"\(_(\d+)\.(\d+): (.*)\)$", s)
        if m:
            return m.group(3)
        raise Unsupported("place type " + s)

    def shift_amount(self, v, w):
        if not v.is_c():
            raise Unsupported("symbolic shift amount")
        return v.c & (w - 1)  # MIR Shl/Shr mask the amount (the overflow assert precedes them)

    def binop(self, op, a, b, ty):
        c = self.ctx
        if op in ("Eq", "Ne", "Lt", "Le", "Gt", "Ge"):
            if isinstance(a, B):
                if a.is_c() and b.is_c():
                    return B(c=(a.c == b.c) if op == "Eq" else (a.c != b.c))
                raise Unsupported("symbolic bool comparison")
            return c.cmp(op, a, b)
        if isinstance(a, B):
            if op in ("BitAnd", "BitOr", "BitXor"):
                if a.is_c() and b.is_c():
                    return B(c={"BitAnd": a.c and b.c, "BitOr": a.c or b.c, "BitXor": a.c != b.c}[op])
                both = a.bv and b.bv
                if op == "BitAnd":
                    return B(smt="(and %s %s)" % (a.smt, b.smt), bv=("(and %s %s)" % (a.bv, b.bv)) if both else None)
                if op == "BitOr":
                    return B(smt="(or %s %s)" % (a.smt, b.smt), bv=("(or %s %s)" % (a.bv, b.bv)) if both else None)
                return B(smt="(xor %s %s)" % (a.smt, b.smt), bv=("(xor %s %s)" % (a.bv, b.bv)) if both else None)
            raise Unsupported("bool op " + op)
        s, w = INT_TYPES[ty]
        if op in ("Add", "AddUnchecked"):
            return c.wrap(c.add(a, b), ty)
        if op in ("Sub", "SubUnchecked"):
            return c.wrap(c.sub(a, b), ty)
        if op in ("Mul", "MulUnchecked"):
            return c.wrap(c.mul(a, b), ty)
        if op in ("Shr", "ShrUnchecked"):
            if not b.is_c():
                return c.sym_shift(a, b, ty, left=False)
            return c.divc(a, 1 << self.shift_amount(b, w))
        if op in ("Shl", "ShlUnchecked"):
            if not b.is_c():
                return c.sym_shift(a, b, ty, left=True)
            k = self.shift_amount(b, w)
            return c.wrap(c.mulc(a, 1 << k), ty)
        if op == "BitAnd":
            for x, y in ((a, b), (b, a)):
                if y.is_c():
                    m = y.c & ((1 << w) - 1)
                    if x.is_c():
                        return c.wrap(V(c=(x.c & ((1 << w) - 1)) & m), ty)
                    if m & (m + 1) == 0:      # low mask 2^k - 1
                        r = c.modc(x, m + 1)
                        return r if not s or m < (1 << (w - 1)) else c.wrap(r, ty)
            raise Unsupported("BitAnd of symbolic values / general mask")
        if op == "BitOr":
            if a.is_c() and b.is_c():
                return c.wrap(V(c=(a.c & ((1 << w) - 1)) | (b.c & ((1 << w) - 1))), ty)
            for x, y in ((a, b), (b, a)):
                # x occupies the low k bits, y is a multiple of 2^k: disjoint bit ranges, OR = +
                if x.lo >= 0:
                    k = x.hi.bit_length()
                    ytz = tzc(y.c) if y.is_c() else y.tz
                    if ytz >= k:
                        return c.wrap(c.add(x, y), ty)
            raise Unsupported("BitOr of overlapping symbolic values")
        if op == "BitXor":
            if a.is_c() and b.is_c():
                return c.wrap(V(c=(a.c ^ b.c)), ty)
            raise Unsupported("BitXor of symbolic values")
        if op in ("Div", "Rem"):
            if b.is_c() and b.c > 0 and a.lo >= 0:
                return c.divc(a, b.c) if op == "Div" else c.modc(a, b.c)
            if op == "Div":
                # rustc guards `/` with assert terminators (divisor zero, MIN / -1), which become obligations
                return c.wrap(self.quotient(a, b, ty), ty)
            raise Unsupported("symbolic remainder")
        raise Unsupported("binop " + op)

    def rvalue(self, f, env, rv, dst_ty):
        rv = rv.strip()
        c = self.ctx
        m = re.match(r"(\w+)\((.*)\)$", rv)
        if m and m.group(1) in ("Eq", "Ne", "Lt", "Le", "Gt", "Ge", "Add", "Sub", "Mul", "Shl", "Shr", "BitAnd", "BitOr", "BitXor", "Div", "Rem",
                                "AddUnchecked", "SubUnchecked", "MulUnchecked", "ShlUnchecked", "ShrUnchecked"):
            a, b = [self.operand(f, env, x) for x in split_top(m.group(2))]
            op = m.group(1)
            ty = dst_ty
            if op in ("Eq", "Ne", "Lt", "Le", "Gt", "Ge"):
                return self.binop(op, a, b, None)
            return self.binop(op, a, b, ty)
        if m and m.group(1) in ("AddWithOverflow", "SubWithOverflow", "MulWithOverflow"):
            a, b = [self.operand(f, env, x) for x in split_top(m.group(2))]
            ty = split_top(dst_ty[1:-1])[0]
            exact = {"AddWithOverflow": c.add, "SubWithOverflow": c.sub, "MulWithOverflow": c.mul}[m.group(1)](a, b)
            return (c.wrap(exact, ty), c.out_of_range(exact, ty))
        if m and m.group(1) == "Not":
            a = self.operand(f, env, m.group(2))
            if isinstance(a, B):
                return bnot(a)
            s, w = INT_TYPES[dst_ty]
            return c.sub(V(c=-1), a) if s else c.sub(V(c=(1 << w) - 1), a)
        if m and m.group(1) == "Neg":
            a = self.operand(f, env, m.group(2))
            return c.wrap(c.neg(a), dst_ty)
        m = re.match(r"(.*) as (\w+) \(IntToInt\)$", rv)
        if m:
            a = self.operand(f, env, m.group(1))
            if isinstance(a, B):
                raise Unsupported("bool to int cast")
            return c.wrap(a, m.group(2))
        if rv.startswith("(") and rv.endswith(")"):
            return tuple(self.operand(f, env, x) for x in split_top(rv[1:-1]))
        m = re.match(r"([\w:]+) \{ (.*) \}$", rv)
        if m:
            d = {"__struct__": m.group(1)}
            for part in split_top(m.group(2)):
                k, v = part.split(":", 1)
                d[k.strip()] = self.operand(f, env, v)
            return d
        m = re.match(r"((?:\w+::)+\w+)\((.*)\)$", rv)
        if m and not rv.startswith("const "):
            return ("enum", m.group(1), tuple(self.operand(f, env, x) for x in split_top(m.group(2))))
        if re.match(r"(?:\w+::)+\w+$", rv):
            return ("enum", rv, ())
        return self.operand(f, env, rv)

    def core_call(self, ty, meth, args):
        c = self.ctx
        s, w = INT_TYPES[ty]
        a = args[0]
        b = args[1] if len(args) > 1 else None
        if meth in ("wrapping_add", "wrapping_sub", "wrapping_mul"):
            ex = {"wrapping_add": c.add, "wrapping_sub": c.sub, "wrapping_mul": c.mul}[meth](a, b)
            return c.wrap(ex, ty)
        if meth in ("overflowing_add", "overflowing_sub", "overflowing_mul"):
            ex = {"overflowing_add": c.add, "overflowing_sub": c.sub, "overflowing_mul": c.mul}[meth](a, b)
            return (c.wrap(ex, ty), c.out_of_range(ex, ty))
        if meth == "wrapping_neg":
            return c.wrap(c.neg(a), ty)
        if meth == "leading_zeros":
            if a.is_c():
                return V(c=w - (a.c & ((1 << w) - 1)).bit_length())
            xu = c.wrap(a, "u%d" % w) if s else a   # bit pattern as an unsigned number
            z = c.fresh("LZ", 0, w)
            alts = ["(and (= %s 0) (= %s %d))" % (xu.smt, z.smt, w)]
            balts = ["(and (= %s %s) (= %s %s))" % (xu.bv, bvlit(0), z.bv, bvlit(w))] if xu.bv else None
            for k in range(w):
                alts.append("(and (= %s %d) (>= %s %s) (< %s %s))" % (z.smt, k, xu.smt, lit(1 << (w - 1 - k)), xu.smt, lit(1 << (w - k))))
                if balts is not None:
                    balts.append("(and (= %s %s) (bvsge %s %s) (bvslt %s %s))" % (z.bv, bvlit(k), xu.bv, bvlit(1 << (w - 1 - k)), xu.bv, bvlit(1 << (w - k))))
            # definitional constraint of the fresh variable: kept with the path (it mentions the operand)
            self.pending.append(B(smt="(or %s)" % " ".join(alts), bv=("(or %s)" % " ".join(balts)) if balts is not None else None))
            return z
        if meth in ("wrapping_div", "overflowing_div"):
            q = self.quotient(a, b, ty)
            if meth == "wrapping_div":
                return c.wrap(q, ty)
            return (c.wrap(q, ty), c.out_of_range(q, ty))
        raise Unsupported("core intrinsic %s::%s" % (ty, meth))

    def quotient(self, x, y, ty):
        """exact truncated quotient of a primitive division as an abstract integer: any value the primitive could return
        (|q| <= |x|); the caller's obligations then hold for whatever the primitive computes.  The divisor is assumed
        non-zero (documented panic of the fixed-point division)."""
        c = self.ctx
        if x.is_c() and y.is_c() and y.c != 0:
            q = abs(x.c) // abs(y.c)
            return V(c=q if (x.c < 0) == (y.c < 0) else -q)
        m = max(abs(x.lo), abs(x.hi))
        q = c.fresh("Q", -m if (x.lo < 0 or y.lo < 0) else 0, m)
        c.divisions.append((x, y, q))
        return q

    def run(self, f, args, pcs):
        """yields (path conditions, return value)"""
        self.called.add(f.name)
        env = {}
        for (idx, _t), a in zip(f.params, args):
            env[idx] = a
        yield from self.block(f, env, "bb0", pcs)

    def block(self, f, env, label, pcs):
        self.npaths += 1
        if self.npaths > self.max_paths:
            raise Unsupported("path explosion")
        env = dict(env)
        stmts = f.blocks[label]
        for s in stmts[:-1]:
            self.assign(f, env, s)
        t = stmts[-1]
        if t == "return;":
            yield (pcs, env.get(0))
            return
        m = re.match(r"goto -> (bb\d+);$", t)
        if m:
            yield from self.block(f, env, m.group(1), pcs)
            return
        m = re.match(r"switchInt\((.*)\) -> \[(.*)\];$", t)
        if m:
            v = self.operand(f, env, m.group(1))
            arms = []
            other = None
            for a in split_top(m.group(2)):
                k, tgt = [x.strip() for x in a.split(":")]
                if k == "otherwise":
                    other = tgt
                else:
                    arms.append((int(k), tgt))
            if isinstance(v, B):
                if v.is_c():
                    val = 1 if v.c else 0
                    tgt = dict(arms).get(val, other)
                    yield from self.block(f, env, tgt, pcs)
                    return
                for k, tgt in arms:
                    cond = v if k != 0 else bnot(v)
                    yield from self.block(f, env, tgt, pcs + [cond])
                if other is not None:
                    taken = [k for k, _ in arms]
                    if taken == [0]:
                        yield from self.block(f, env, other, pcs + [v])
                    elif taken == [1]:
                        yield from self.block(f, env, other, pcs + [bnot(v)])
                return
            if v.is_c():
                tgt = dict(arms).get(v.c, other)
                yield from self.block(f, env, tgt, pcs)
                return
            for k, tgt in arms:
                yield from self.block(f, env, tgt, pcs + [self.ctx.cmp("Eq", v, V(c=k))])
            if other is not None:
                yield from self.block(f, env, other, pcs + [self.ctx.cmp("Ne", v, V(c=k)) for k, _ in arms])
            return
        m = re.match(r"assert\((!?)(.*?), \"(.*?)\".*\) -> \[success: (bb\d+), unwind.*\];$", t)
        if m:
            neg, cond_s, msg, tgt = m.groups()
            cond = self.operand(f, env, cond_s)
            if neg:
                cond = bnot(cond)
            if cond.is_c():
                if not cond.c:
                    self.ctx.obligations.append((list(pcs), B(c=False), msg, f.name))
                    return
            else:
                self.ctx.obligations.append((list(pcs), cond, msg, f.name))
                pcs = pcs + [cond]
            yield from self.block(f, env, tgt, pcs)
            return
        m = re.match(r"(.*?) = (.*)\((.*)\) -> \[return: (bb\d+), unwind.*\];$", t)
        if m:
            dst, callee, argstr, tgt = m.groups()
            args = [self.operand(f, env, a) for a in split_top(argstr)]
            fm = re.match(r"<(\w+) as From<(\w+)>>::from$", callee.strip())
            if fm and fm.group(1) in INT_TYPES and fm.group(2) in INT_TYPES:
                self.store(f, env, dst, self.ctx.wrap(args[0], fm.group(1)))
                yield from self.block(f, env, tgt, pcs)
                return
            wm = re.match(r"<(\w+) as (?:[\w:]+::)?WideDivRem<(\w+)>>::div_rem_from$", callee.strip())
            if wm and self.abstract_wide_div:
                ty_s, ty_u = wm.group(1), wm.group(2)
                divisor, dividend = args
                lo_s, hi_s = ty_range(ty_s)
                lo_u, hi_u = ty_range(ty_u)
                qh = self.ctx.fresh("QH", lo_s, hi_s)
                ql = self.ctx.fresh("QL", lo_u, hi_u)
                rem = self.ctx.fresh("R", lo_s, hi_s)
                self.ctx.wide_divisions.append((divisor, dividend[0], dividend[1], qh, ql))
                self.store(f, env, dst, ((qh, ql), rem))
                yield from self.block(f, env, tgt, pcs)
                return
            cm = CORE.match(callee.strip())
            if cm:
                r = self.core_call(cm.group(1), cm.group(2), args)
                self.store(f, env, dst, r)
                yield from self.block(f, env, tgt, pcs)
                return
            g = self.resolve(callee.strip(), args)
            for (pcs2, rv) in self.run(g, args, pcs):
                if self.watch_suffix and g.name.endswith(self.watch_suffix):
                    self.watched.append((list(pcs), args, rv))
                env2 = dict(env)
                self.store(f, env2, dst, rv)
                yield from self.block(f, env2, tgt, pcs2)
            return
        m = re.match(r"(.*?) = (.*?)\((.*)\) -> unwind.*;$", t)
        if m:
            # diverging call (core::panicking::panic and friends): a panic leaf
            self.ctx.obligations.append((list(pcs), B(c=False), "panic: " + m.group(3)[:80], f.name))
            return
        if t.startswith("unreachable"):
            self.ctx.obligations.append((list(pcs), B(c=False), "unreachable reached", f.name))
            return
        raise Unsupported("terminator " + t)

    def store(self, f, env, dst, val):
        dst = dst.strip()
        m = re.match(r"_(\d+)$", dst)
        if m:
            env[int(m.group(1))] = val
            return
        m = re.match(r"\(_(\d+)\.(\d+): .*\)$", dst)
        if m:
            i, k = int(m.group(1)), int(m.group(2))
            cur = list(env.get(i, (None, None)))
            while len(cur) <= k:
                cur.append(None)
            cur[k] = val
            env[i] = tuple(cur)
            return
        raise Unsupported("store to " + dst)

    def assign(self, f, env, s):
        if s.startswith("StorageLive") or s.startswith("StorageDead") or s.startswith("nop") or s.startswith("FakeRead") \
                or s.startswith("PlaceMention") or s.startswith("AscribeUserType") or s.startswith("Coverage"):
            return
        m = re.match(r"(.*?) = (.*);$", s)
        if not m:
            raise Unsupported("statement " + s)
        dst, rv = m.groups()
        ty = self.place_type(f, dst)
        self.store(f, env, dst, self.rvalue(f, env, rv, ty))
