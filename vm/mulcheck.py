"""Engine M obligations for the 128-bit multiplication kernel (arith.rs mul_div_fallback::mul_overflow).

For a concrete fractional-bit count f and symbolic operands a, b the MIR of mul_overflow (with every
helper it calls inlined) is executed symbolically; each path must return
(floor(a*b / 2^f) mod 2^128, floor(a*b / 2^f) not representable) and no assert terminator (rustc's
overflow checks, debug_assert!) may be reachable.  a*b is expressed through the four 64x64 limb
products, which are the same abstract integers the implementation's wrapping_mul calls produce
(McCormick envelopes): what is proved is the carry / recombination / shift / flag logic for ALL
operands; what is trusted is that a 64x64-bit product of zero/sign-extended limbs in a 128-bit word
is the mathematical product (its no-wrap side condition is proved from the envelopes)."""
import os
import random
import subprocess
import tempfile
import time

from . import mir

TWO64 = 1 << 64


def find_mul(funcs, ty):
    for name, fl in funcs.items():
        if name.endswith("::mul_overflow"):
            for f in fl:
                if f.params and f.params[0][1] == ty:
                    return f
    raise mir.Unsupported("mul_overflow for %s not found in the MIR dump" % ty)


def build(funcs, ty, f, exact=False):
    ctx = mir.Ctx(exact_products=exact)
    a = ctx.input("a", ty)
    b = ctx.input("b", ty)
    ex = mir.Exec(funcs, ctx)
    fn = find_mul(funcs, ty)
    leaves = list(ex.run(fn, [a, b, mir.V(c=f)], []))
    # specification from the same limb products
    ah, al = ctx.divc(a, TWO64), ctx.modc(a, TWO64)
    bh, bl = ctx.divc(b, TWO64), ctx.modc(b, TWO64)
    if f == 0:
        prod = ctx.mul(a, b)
    else:
        p_ll, p_hl, p_lh, p_hh = ctx.mul(al, bl), ctx.mul(ah, bl), ctx.mul(al, bh), ctx.mul(ah, bh)
        prod = ctx.add(ctx.add(ctx.mulc(p_hh, 1 << 128), ctx.mulc(ctx.add(p_hl, p_lh), TWO64)), p_ll)
    exact_q = ctx.divc(prod, 1 << f)
    want_val = ctx.wrap(exact_q, ty)
    want_ovf = ctx.out_of_range(exact_q, ty)
    queries = []
    for (pcs, rv) in leaves:
        val, ovf = rv
        goal = mir.band(ctx.cmp("Eq", val, want_val), mir.beq(ovf, want_ovf))
        queries.append(("value+flag on path %d" % len(queries), pcs, goal))
    for (pcs, cond, msg, fname) in ctx.obligations:
        queries.append(("no panic: %s in %s" % (msg[:60], fname.split("::")[-1]), pcs, cond))
    return ctx, queries, sorted(ex.called)


def find_fn(funcs, suffix, ty):
    for name, fl in funcs.items():
        if name.endswith(suffix):
            for f in fl:
                if f.params and f.params[0][1] == ty:
                    return f
    raise mir.Unsupported("%s for %s not found in the MIR dump" % (suffix, ty))


def build_stage_a(funcs, ty, f, exact=False):
    """carry logic: on every path the two words handed to combine_lo_then_shl are the exact 256-bit product
    (hi * 2^128 + lo == a*b), the result of mul_overflow is that call's result, and no check fires before it"""
    ctx = mir.Ctx(exact_products=exact)
    a = ctx.input("a", ty)
    b = ctx.input("b", ty)
    ex = mir.Exec(funcs, ctx)
    ex.watch_suffix = "::combine_lo_then_shl"
    fn = find_mul(funcs, ty)
    leaves = list(ex.run(fn, [a, b, mir.V(c=f)], []))
    ah, al = ctx.divc(a, TWO64), ctx.modc(a, TWO64)
    bh, bl = ctx.divc(b, TWO64), ctx.modc(b, TWO64)
    p_ll, p_hl, p_lh, p_hh = ctx.mul(al, bl), ctx.mul(ah, bl), ctx.mul(al, bh), ctx.mul(ah, bh)
    prod = ctx.add(ctx.add(ctx.mulc(p_hh, 1 << 128), ctx.mulc(ctx.add(p_hl, p_lh), TWO64)), p_ll)
    queries = []
    returned = [rv for (_p, _a, rv) in ex.watched]
    for (pcs, rv) in leaves:
        if not any(rv is r for r in returned):
            raise mir.Unsupported("mul_overflow does not return the value of combine_lo_then_shl on some path")
    if not ex.watched:
        raise mir.Unsupported("combine_lo_then_shl is not called")
    seen = set()
    for (pcs, args, _rv) in ex.watched:
        hi, lo, sh = args
        key = (tuple(pcs), hi.smt, lo.smt)
        if key in seen:
            continue
        seen.add(key)
        if not (sh.is_c() and sh.c == f):
            raise mir.Unsupported("combine_lo_then_shl is not called with the fractional-bit count")
        goal = mir.band(ctx.cmp("Eq", ctx.add(ctx.mulc(hi, 1 << 128), lo), prod), ctx.cmp("Ge", lo, mir.V(c=0)), ctx.cmp("Lt", lo, mir.V(c=1 << 128)))
        queries.append(("carry logic: hi*2^128 + lo = a*b at the call of combine_lo_then_shl", pcs, goal))
    for (pcs, cond, msg, fname) in ctx.obligations:
        if fname.endswith("::combine_lo_then_shl"):
            continue   # stage B
        queries.append(("no panic: %s in %s" % (msg[:60], fname.split("::")[-1]), pcs, cond))
    return ctx, queries, sorted(ex.called)


def build_stage_b(funcs, ty, f):
    """recombination: for ALL words h, l: combine_lo_then_shl(h, l, f) = (floor((h*2^128 + l) / 2^f) mod 2^128, not representable)"""
    ctx = mir.Ctx()
    h = ctx.input("a", ty)       # named a/b so that models print the same way
    l = ctx.input("b", "u128")
    ex = mir.Exec(funcs, ctx)
    fn = find_fn(funcs, "::combine_lo_then_shl", ty)
    leaves = list(ex.run(fn, [h, l, mir.V(c=f)], []))
    whole = ctx.add(ctx.mulc(h, 1 << 128), l)
    exact_q = ctx.divc(whole, 1 << f)
    want_val = ctx.wrap(exact_q, ty)
    want_ovf = ctx.out_of_range(exact_q, ty)
    queries = []
    for (pcs, rv) in leaves:
        val, ovf = rv
        queries.append(("recombination value on path %d" % len(queries), pcs, ctx.cmp("Eq", val, want_val)))
        queries.append(("recombination flag on path %d" % len(queries), pcs, mir.beq(ovf, want_ovf)))
    for (pcs, cond, msg, fname) in ctx.obligations:
        queries.append(("no panic: %s in %s" % (msg[:60], fname.split("::")[-1]), pcs, cond))
    return ctx, queries, sorted(ex.called)


def smt_script(ctx, queries, models=False, bv=False):
    """integer rendering (default) or bit-vector rendering (only when every term has one: no abstract products)"""
    if bv:
        for (name, pcs, goal) in queries:
            if goal.bv is None or any(p.bv is None for p in pcs):
                return None
        out = ["(set-logic QF_BV)", "(set-option :produce-models true)"] + ctx.bvdecls
    else:
        if getattr(ctx, "int_invalid", False):
            raise mir.Unsupported("no integer rendering (symbolic shift amounts): only the bit-vector rendering is available")
        out = ["(set-logic ALL)", "(set-option :produce-models true)"] + ctx.decls
    for (name, pcs, goal) in queries:
        out.append("(push 1)")
        for p in pcs:
            out.append("(assert %s)" % (p.bv if bv else p.smt))
        out.append("(assert (not %s))" % (goal.bv if bv else goal.smt))
        out.append("(check-sat)")
        if models:
            out.append("(get-value (a b))")
        out.append("(pop 1)")
    return "\n".join(out) + "\n"


def run_solver(script, solver="cvc5", tlimit_ms=120000):
    with tempfile.NamedTemporaryFile("w", suffix=".smt2", delete=False) as f:
        f.write(script)
        path = f.name
    try:
        if solver == "cvc5":
            cmd = ["cvc5", "--lang", "smt2", "--incremental", "--tlimit-per=%d" % tlimit_ms, path]
        else:
            cmd = [solver, "-smt2", "-t:%d" % tlimit_ms, path]
        t0 = time.time()
        p = subprocess.run(cmd, capture_output=True, text=True, timeout=tlimit_ms / 1000.0 * 40 + 60)
        dt = time.time() - t0
        return p.stdout + p.stderr, dt
    finally:
        os.unlink(path)


def parse_answers(out):
    """answers to the (check-sat) commands in order, and for each the (a, b) model if one was printed"""
    import re
    ans, models = [], []
    buf = None
    for line in out.splitlines():
        s = line.strip()
        if buf is not None:
            buf += " " + s
            if buf.count("(") <= buf.count(")"):
                vals = _model_vals(buf)
                if ans and "a" in vals and "b" in vals:
                    models[-1] = (vals["a"], vals["b"])
                buf = None
            continue
        if s in ("sat", "unsat", "unknown"):
            ans.append(s)
            models.append(None)
        elif s.startswith("(error"):
            if "get value" in s.lower() or "model is not available" in s.lower() or "cannot get" in s.lower():
                continue      # (get-value) after an unsat answer
            ans.append("error:" + s[:80])
            models.append(None)
        elif "interrupted" in s or s.lower().startswith("timeout"):
            ans.append("unknown")
            models.append(None)
        elif s.startswith("((") :
            buf = s
            if buf.count("(") <= buf.count(")"):
                vals = _model_vals(buf)
                if ans and "a" in vals and "b" in vals:
                    models[-1] = (vals["a"], vals["b"])
                buf = None
    return ans, models


def _model_vals(buf):
    import re
    vals = {}
    for m in re.finditer(r"\((a|b) (\(- (\d+)\)|(\d+)|#x([0-9a-fA-F]+)|#b([01]+))\)", buf):
        if m.group(3):
            v = -int(m.group(3))
        elif m.group(4):
            v = int(m.group(4))
        else:
            v = int(m.group(5), 16) if m.group(5) else int(m.group(6), 2)
            if v >> (mir.WBV - 1):
                v -= 1 << mir.WBV
        vals[m.group(1)] = v
    return vals


def spec_py(a, b, f, signed):
    q = (a * b) >> f
    lo, hi = (-(1 << 127), (1 << 127) - 1) if signed else (0, (1 << 128) - 1)
    ovf = not (lo <= q <= hi)
    w = q & ((1 << 128) - 1)
    if signed and w >> 127:
        w -= 1 << 128
    return w, ovf


def concrete(funcs, ty, a, b, f):
    """run the executor on concrete operands (translator validation)"""
    ctx = mir.Ctx(exact_products=True)
    ex = mir.Exec(funcs, ctx)
    fn = find_mul(funcs, ty)
    leaves = list(ex.run(fn, [mir.V(c=a), mir.V(c=b), mir.V(c=f)], []))
    panics = [o for o in ctx.obligations if o[1].is_c() and not o[1].c]
    if len(leaves) != 1:
        return None, panics
    val, ovf = leaves[0][1]
    return (val.c, ovf.c), panics


def validate_translator(funcs, ty, seed, n=300):
    """executor on concrete vectors (repository test operands + seeded) vs the arithmetic specification"""
    signed = ty[0] == "i"
    rnd = random.Random(seed)
    lo, hi = mir.ty_range(ty)
    vecs = []
    specials = [0, 1, 2, hi, hi - 1, lo, lo + 1, (1 << 64) - 1, 1 << 64, (1 << 64) + 1, 12 << 7, 5 << 7, 0x1234_5678_9abc_def0_0fed_cba9_8765_4321 & hi]
    if signed:
        specials += [-1, -2, -(1 << 64), -(12 << 7), -(5 << 7), -(1 << 127) + (1 << 64) - 1]
    for x in specials:
        for y in specials:
            vecs.append((x, y))
    for _ in range(n):
        vecs.append((rnd.randrange(lo, hi + 1), rnd.randrange(lo, hi + 1)))
        k = rnd.randrange(1, 128)
        vecs.append((rnd.randrange(lo, hi + 1) >> k, rnd.randrange(lo, hi + 1) >> rnd.randrange(0, 128)))
    bad = []
    for (x, y) in vecs:
        f = rnd.choice([1, 7, 63, 64, 65, 127, 128])
        got, panics = concrete(funcs, ty, x, y, f)
        want = spec_py(x, y, f, signed)
        if got is None or got != want or panics:
            bad.append((x, y, f, got, want, [p[2] for p in panics]))
    return len(vecs), bad
